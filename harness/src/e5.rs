//! E5 `net` — the real server as a deterministic event system (DESIGN §5 E5).
//! Serves C06, C10, C11, C15, C16.
//!
//! `net::Config::async_server(GateKv(handle), shutdown)` + `Server::run()` run on a current-thread
//! tokio runtime in a thread the harness owns. Every store call of the server goes through
//! `GateKv`, which can hold it before and after the real call; the server thread's `epoll_wait`
//! is bracketed by an idle marker; server-side `recv` obeys a segmentation script.

use std::collections::BTreeMap;
use std::io::{Read, Write};
use std::net::{Shutdown as NetShutdown, TcpStream};
use std::path::{Path, PathBuf};
use std::sync::atomic::{AtomicBool, AtomicU64, Ordering};
use std::sync::{Arc, Condvar, Mutex};
use std::time::{Duration, Instant};

use bitcask::storage::bitcask::{Bitcask, Config, Handle, VerifMergePolicy};
use bitcask::storage::KeyValueStorage;
use bytes::Bytes;
use serde_json::{json, Value};

use crate::common::*;
use crate::iohook;
use crate::model::{cmd, resp_decode, resp_encode, resp_split, Kv, LEvent, LOp, LRes, RErr, RFrame};

// ---------------------------------------------------------------------------------------------
// the gate

#[derive(Clone, Debug)]
pub struct OpRec {
    pub desc: String,
    pub lop: LOp,
    pub released_before: bool,
    pub entered: u64,
    pub done: bool,
    pub exited: u64,
    pub released_after: bool,
    pub result: Option<LRes>,
    /// parked inside the store call, right before it queues for the writer lock (inner gate)
    pub at_inner: bool,
    pub released_inner: bool,
    /// mode 2 (every hook point): how many more hook points this operation may be parked at, and
    /// whether it is parked right before the writer lock
    pub inner_budget: usize,
    pub at_writer_gate: bool,
}

#[derive(Default)]
pub struct GState {
    pub gated: bool,
    pub ops: Vec<OpRec>,
    /// panic in the n-th `clone()` from now (1 = the next one); 0 = disarmed
    pub clone_panic_in: usize,
    pub clones: usize,
    pub inflight: usize,
    /// operations whose description starts with one of these pass the gates without being held
    pub auto_release: Vec<String>,
    /// hold gated operations a third time: inside the store call, before they queue for the writer lock
    pub inner_gated: bool,
    /// when set, only operations whose description starts with this are held at the gates
    pub hold_only: Option<String>,
    /// mode 2: park at EVERY hook point that precedes an access to shared state (writer lock and
    /// KeyDir shards), up to a budget per operation
    pub inner_all: bool,
    /// the gated operation that has passed the writer gate and not yet released the writer lock
    pub writer_holder: Option<usize>,
    /// every file-system call made by a store call whose description starts with this fails (EIO)
    pub fault_prefix: Option<String>,
    /// the first write of such a store call stalls (until `iohook::stall_release`) before it fails
    pub fault_stall: bool,
}

thread_local! {
    /// the gated operation this thread is executing inside the store (set by `GateKv::around`)
    static INNER_OP: std::cell::RefCell<Option<(Arc<Gate>, usize)>> = const { std::cell::RefCell::new(None) };
}

/// Store hook for the inner gate: an operation that is about to queue for the writer lock (it holds
/// nothing at that point) parks until the harness lets it continue.
pub fn inner_gate_hook(ev: bitcask::verif::Ev) {
    use bitcask::verif::{Ev, WRITER};
    let cur = INNER_OP.try_with(|c| c.borrow().clone()).ok().flatten();
    let Some((g, id)) = cur else { return };
    match ev {
        Ev::Acquire(r, _) => {
            let mut st = g.m.lock().unwrap();
            let all = st.inner_all;
            if !all {
                // mode 1: only the writer gate, once
                if r != WRITER || st.ops[id].released_inner {
                    return;
                }
                st.ops[id].at_inner = true;
                g.cv.notify_all();
                while !st.ops[id].released_inner {
                    st = g.cv.wait(st).unwrap();
                }
                st.ops[id].at_inner = false;
                return;
            }
            // mode 2: every acquisition; the writer gate always parks (an operation let through while
            // another one holds the lock would block where the harness can not see it)
            if r != WRITER && r.0 != "kd" {
                return;
            }
            if r != WRITER && st.ops[id].inner_budget == 0 {
                return;
            }
            st.ops[id].inner_budget = st.ops[id].inner_budget.saturating_sub(1);
            st.ops[id].released_inner = false;
            st.ops[id].at_inner = true;
            st.ops[id].at_writer_gate = r == WRITER;
            g.cv.notify_all();
            while !st.ops[id].released_inner {
                st = g.cv.wait(st).unwrap();
            }
            st.ops[id].at_inner = false;
            st.ops[id].at_writer_gate = false;
            if r == WRITER {
                st.writer_holder = Some(id);
            }
        }
        Ev::Release(r, _) if r == WRITER => {
            let mut st = g.m.lock().unwrap();
            if st.writer_holder == Some(id) {
                st.writer_holder = None;
                g.cv.notify_all();
            }
        }
        _ => {}
    }
}

pub struct Gate {
    pub m: Mutex<GState>,
    pub cv: Condvar,
}

pub static SEQ: AtomicU64 = AtomicU64::new(1);
fn stamp() -> u64 {
    SEQ.fetch_add(1, Ordering::SeqCst)
}

pub struct GateKv {
    inner: Handle,
    gate: Arc<Gate>,
}

impl Clone for GateKv {
    fn clone(&self) -> Self {
        let mut st = self.gate.m.lock().unwrap();
        st.clones += 1;
        if st.clone_panic_in > 0 {
            st.clone_panic_in -= 1;
            if st.clone_panic_in == 0 {
                drop(st);
                panic!("armed panic in KeyValueStorage::clone (handler task)");
            }
        }
        drop(st);
        GateKv { inner: self.inner.clone(), gate: self.gate.clone() }
    }
}

impl GateKv {
    fn around<R>(&self, desc: String, lop: LOp, f: impl FnOnce(&Handle) -> Result<R, bitcask::storage::bitcask::Error>, to_res: impl Fn(&R) -> LRes) -> Result<R, bitcask::storage::bitcask::Error> {
        let g = &self.gate;
        let id;
        {
            let mut st = g.m.lock().unwrap();
            id = st.ops.len();
            let gated = st.gated && !st.auto_release.iter().any(|p| desc.starts_with(p.as_str())) && st.hold_only.as_ref().map_or(true, |p| desc.starts_with(p.as_str()));
            let inner = gated && st.inner_gated;
            let budget = if inner && st.inner_all { 3 } else { 0 };
            st.ops.push(OpRec { desc, lop, released_before: !gated, entered: 0, done: false, exited: 0, released_after: !gated, result: None, at_inner: false, released_inner: !inner, inner_budget: budget, at_writer_gate: false });
            if inner {
                INNER_OP.with(|c| *c.borrow_mut() = Some((g.clone(), id)));
            }
            st.inflight += 1;
            g.cv.notify_all();
            while !st.ops[id].released_before {
                st = g.cv.wait(st).unwrap();
            }
            st.ops[id].entered = stamp();
            if st.fault_prefix.as_ref().map_or(false, |p| st.ops[id].desc.starts_with(p.as_str())) {
                iohook::fail_all_on_this_thread(Some(libc::EIO));
                if st.fault_stall {
                    // ... and the first write takes its time before it fails
                    iohook::stall_next_write_on_this_thread();
                }
            }
        }
        let r = f(&self.inner);
        iohook::fail_all_on_this_thread(None);
        iohook::stall_disarm_this_thread();
        INNER_OP.with(|c| *c.borrow_mut() = None);
        {
            let mut st = g.m.lock().unwrap();
            st.ops[id].exited = stamp();
            st.ops[id].done = true;
            st.ops[id].result = Some(match &r {
                Ok(v) => to_res(v),
                Err(_) => LRes::Pending,
            });
            g.cv.notify_all();
            while !st.ops[id].released_after {
                st = g.cv.wait(st).unwrap();
            }
            st.inflight -= 1;
            g.cv.notify_all();
        }
        r
    }
}

impl KeyValueStorage for GateKv {
    type Error = bitcask::storage::bitcask::Error;
    fn set(&self, k: Bytes, v: Bytes) -> Result<(), Self::Error> {
        self.around(format!("set {} {}", hex(&k), hex(&v)), LOp::Set(k.to_vec(), v.to_vec()), |h| h.set(k.clone(), v.clone()), |_| LRes::Unit)
    }
    fn get(&self, k: Bytes) -> Result<Option<Bytes>, Self::Error> {
        self.around(format!("get {}", hex(&k)), LOp::Get(k.to_vec()), |h| h.get(k.clone()), |v| LRes::Val(v.as_ref().map(|x| x.to_vec())))
    }
    fn del(&self, k: Bytes) -> Result<bool, Self::Error> {
        self.around(format!("del {}", hex(&k)), LOp::Del(k.to_vec()), |h| h.del(k.clone()), |b| LRes::Bool(*b))
    }
}

impl Gate {
    pub fn n_ops(&self) -> usize {
        self.m.lock().unwrap().ops.len()
    }
    pub fn snapshot(&self) -> Vec<OpRec> {
        self.m.lock().unwrap().ops.clone()
    }
    /// Wait until at least `n` operations have arrived at the gate.
    pub fn wait_arrivals(&self, n: usize, timeout: Duration) -> bool {
        let t0 = Instant::now();
        let mut st = self.m.lock().unwrap();
        while st.ops.len() < n {
            let left = timeout.checked_sub(t0.elapsed());
            let Some(left) = left else { return false };
            st = self.cv.wait_timeout(st, left).unwrap().0;
        }
        true
    }
    pub fn release_before(&self, id: usize) {
        let mut st = self.m.lock().unwrap();
        st.ops[id].released_before = true;
        self.cv.notify_all();
    }
    pub fn wait_done(&self, id: usize, timeout: Duration) -> bool {
        let t0 = Instant::now();
        let mut st = self.m.lock().unwrap();
        while !st.ops[id].done {
            let Some(left) = timeout.checked_sub(t0.elapsed()) else { return false };
            st = self.cv.wait_timeout(st, left).unwrap().0;
        }
        true
    }
    /// Wait until the operation has finished inside the store or is parked at the inner gate;
    /// returns Some(true) when parked.
    pub fn wait_done_or_inner(&self, id: usize, timeout: Duration) -> Option<bool> {
        let t0 = Instant::now();
        let mut st = self.m.lock().unwrap();
        loop {
            if st.ops[id].done {
                return Some(false);
            }
            if st.ops[id].at_inner {
                return Some(true);
            }
            let left = timeout.checked_sub(t0.elapsed())?;
            st = self.cv.wait_timeout(st, left).unwrap().0;
        }
    }
    pub fn release_inner(&self, id: usize) {
        let mut st = self.m.lock().unwrap();
        st.ops[id].released_inner = true;
        self.cv.notify_all();
    }
    /// Hold only the operations whose description starts with `prefix` (everything else passes).
    pub fn hold_only(&self, prefix: String) {
        let mut st = self.m.lock().unwrap();
        st.gated = true;
        st.hold_only = Some(prefix);
    }
    pub fn set_inner_gated(&self, on: bool) {
        self.m.lock().unwrap().inner_gated = on;
    }
    pub fn set_fault_prefix(&self, p: Option<String>) {
        self.m.lock().unwrap().fault_prefix = p;
    }
    pub fn set_fault_stall(&self, on: bool) {
        self.m.lock().unwrap().fault_stall = on;
    }
    pub fn set_inner_all(&self, on: bool) {
        let mut st = self.m.lock().unwrap();
        st.inner_gated = on;
        st.inner_all = on;
    }
    /// Mode 2: let a parked operation go on to its next hook point. Returns false (and does
    /// nothing) when it is parked at the writer gate while another gated operation holds the lock.
    pub fn continue_inner(&self, id: usize) -> bool {
        let mut st = self.m.lock().unwrap();
        if !st.ops[id].at_inner {
            return false;
        }
        if st.ops[id].at_writer_gate && st.writer_holder.is_some() && st.writer_holder != Some(id) {
            return false;
        }
        st.ops[id].released_inner = true;
        st.ops[id].at_inner = false;
        self.cv.notify_all();
        true
    }
    pub fn parked(&self, id: usize) -> bool {
        self.m.lock().unwrap().ops[id].at_inner
    }
    pub fn release_after(&self, id: usize) {
        let mut st = self.m.lock().unwrap();
        st.ops[id].released_after = true;
        self.cv.notify_all();
    }
    /// Operations whose description starts with `prefix` are not held when they arrive.
    pub fn auto_release_prefix(&self, prefix: String) {
        self.m.lock().unwrap().auto_release.push(prefix);
    }
    /// New arrivals are no longer held (operations already at the gate stay where they are).
    pub fn ungate_new_arrivals(&self) {
        let mut st = self.m.lock().unwrap();
        st.gated = false;
        // operations that arrived but were never touched by the scenario stay held; only later ones pass
        self.cv.notify_all();
    }
    pub fn release_all(&self) {
        let mut st = self.m.lock().unwrap();
        st.gated = false;
        st.inner_all = false;
        st.inner_gated = false;
        st.writer_holder = None;
        for o in st.ops.iter_mut() {
            o.released_before = true;
            o.released_inner = true;
            o.inner_budget = 0;
            o.released_after = true;
        }
        self.cv.notify_all();
    }
    pub fn inflight(&self) -> usize {
        self.m.lock().unwrap().inflight
    }
    pub fn clones(&self) -> usize {
        self.m.lock().unwrap().clones
    }
    pub fn wait_clones(&self, n: usize, timeout: Duration) -> bool {
        let t0 = Instant::now();
        while self.clones() < n {
            if t0.elapsed() > timeout {
                return false;
            }
            std::thread::sleep(Duration::from_micros(50));
        }
        true
    }
    pub fn arm_clone_panic(&self, nth: usize) {
        self.m.lock().unwrap().clone_panic_in = nth;
    }
}

// ---------------------------------------------------------------------------------------------
// server life cycle

pub struct Srv {
    pub port: u16,
    pub gate: Arc<Gate>,
    shutdown_tx: Option<tokio::sync::oneshot::Sender<()>>,
    thread: Option<std::thread::JoinHandle<()>>,
    pub run_returned: Arc<AtomicBool>,
    pub kv: Option<Bitcask>,
    pub handle: Handle,
    pub dir: PathBuf,
}

pub struct SrvCfg {
    pub max_connections: usize,
    pub max_file_size: u64,
    pub gated: bool,
}

// A thread that does nothing but acknowledge pings: how long the operating system takes to run a
// thread that has just been woken, measured at the moment it matters.
static CANARY: (Mutex<(u64, u32)>, Condvar) = (Mutex::new((0, 0)), Condvar::new());
static CANARY_ACK: std::sync::atomic::AtomicU64 = std::sync::atomic::AtomicU64::new(0);
fn canary_ping() -> u64 {
    let mut g = CANARY.0.lock().unwrap();
    if g.1 != std::process::id() {
        // (threads do not survive a fork)
        g.1 = std::process::id();
        std::thread::Builder::new()
            .name("vh-canary".into())
            .spawn(|| {
                let mut g = CANARY.0.lock().unwrap();
                loop {
                    CANARY_ACK.store(g.0, Ordering::SeqCst);
                    g = CANARY.1.wait(g).unwrap();
                }
            })
            .expect("canary thread");
    }
    g.0 += 1;
    CANARY.1.notify_all();
    g.0
}
fn canary_acked(ping: u64) -> bool {
    CANARY_ACK.load(Ordering::SeqCst) >= ping
}

impl Srv {
    pub fn start(dir: &Path, cfg: &SrvCfg) -> Result<Srv, String> {
        rmrf(dir);
        std::fs::create_dir_all(dir).unwrap();
        iohook::srv_time_reset();
        let mut c = Config::default();
        c.path(dir).concurrency(4).max_file_size(cfg.max_file_size).merge_policy(VerifMergePolicy::Never);
        c.merge_threshold_small_file(u64::MAX);
        let kv = c.open().map_err(|e| format!("open store: {}", e))?;
        let handle = kv.get_handle();
        for attempt in 0..60 {
            // server ports come from a private range below the ephemeral range (32768..), spread by
            // process id so that concurrent workers / checks rarely meet; a busy port is skipped
            static NEXT: AtomicU64 = AtomicU64::new(0);
            let k = NEXT.fetch_add(1, Ordering::SeqCst);
            let port = 10_000 + ((std::process::id() as u64 * 7919 + k) % 22_000) as u16;
            let gate = Arc::new(Gate { m: Mutex::new(GState { gated: cfg.gated, ..Default::default() }), cv: Condvar::new() });
            let (tx, rx) = tokio::sync::oneshot::channel::<()>();
            let w = GateKv { inner: handle.clone(), gate: gate.clone() };
            let run_returned = Arc::new(AtomicBool::new(false));
            let rr = run_returned.clone();
            let started = Arc::new((Mutex::new(None::<Result<(), String>>), Condvar::new()));
            let st2 = started.clone();
            let maxc = cfg.max_connections;
            let thread = std::thread::Builder::new()
                .name("vh-server".into())
                .spawn(move || {
                    iohook::mark_server_thread(true);
                    let rt = tokio::runtime::Builder::new_current_thread().enable_all().build().unwrap();
                    rt.block_on(async move {
                        let mut nc = bitcask::net::Config::default();
                        nc.host = "127.0.0.1".parse().unwrap();
                        nc.port = port;
                        nc.max_connections = maxc;
                        nc.min_backoff_ms = 1;
                        // a few consecutive accept errors are tolerated (1+2+4+...+64 ms), as in production
                        nc.max_backoff_ms = 64;
                        match nc.async_server(w, async move { let _ = rx.await; }).await {
                            Ok(srv) => {
                                *st2.0.lock().unwrap() = Some(Ok(()));
                                st2.1.notify_all();
                                srv.run().await;
                            }
                            Err(e) => {
                                *st2.0.lock().unwrap() = Some(Err(e.to_string()));
                                st2.1.notify_all();
                            }
                        }
                    });
                    rr.store(true, Ordering::SeqCst);
                    drop(rt);
                    iohook::mark_server_thread(false);
                })
                .map_err(|e| e.to_string())?;
            let res = {
                let mut g = started.0.lock().unwrap();
                while g.is_none() {
                    g = started.1.wait(g).unwrap();
                }
                g.clone().unwrap()
            };
            match res {
                Ok(()) => {
                    let mut s = Srv { port, gate, shutdown_tx: Some(tx), thread: Some(thread), run_returned, kv: Some(kv), handle, dir: dir.to_path_buf() };
                    s.wait_idle_once();
                    return Ok(s);
                }
                Err(e) => {
                    let _ = thread.join();
                    if attempt == 59 {
                        return Err(format!("server start failed: {}", e));
                    }
                }
            }
        }
        unreachable!()
    }

    fn wait_idle_once(&mut self) {
        let t0 = Instant::now();
        while !iohook::srv_idle() && t0.elapsed() < Duration::from_secs(5) {
            std::thread::yield_now();
        }
    }

    pub fn connect(&self) -> std::io::Result<TcpStream> {
        let mut last = None;
        for _ in 0..200 {
            match TcpStream::connect(("127.0.0.1", self.port)) {
                Ok(s) => {
                    s.set_nodelay(true)?;
                    return Ok(s);
                }
                // ephemeral port pressure (many short connections): wait for TIME_WAIT reuse
                Err(e) if matches!(e.raw_os_error(), Some(libc::EADDRNOTAVAIL) | Some(libc::EADDRINUSE)) => {
                    last = Some(e);
                    std::thread::sleep(Duration::from_millis(5));
                }
                Err(e) => return Err(e),
            }
        }
        Err(last.unwrap())
    }

    /// Connect with a receive buffer of `bytes` (set before the connection is made, so that the
    /// window the server sees is small from the start).
    pub fn connect_small_rcvbuf(&self, bytes: i32) -> std::io::Result<TcpStream> {
        use std::os::unix::io::FromRawFd;
        unsafe {
            let fd = libc::socket(libc::AF_INET, libc::SOCK_STREAM | libc::SOCK_CLOEXEC, 0);
            if fd < 0 {
                return Err(std::io::Error::last_os_error());
            }
            libc::setsockopt(fd, libc::SOL_SOCKET, libc::SO_RCVBUF, &bytes as *const _ as *const libc::c_void, 4);
            let mut dst: libc::sockaddr_in = std::mem::zeroed();
            dst.sin_family = libc::AF_INET as u16;
            dst.sin_addr.s_addr = u32::from_ne_bytes([127, 0, 0, 1]);
            dst.sin_port = self.port.to_be();
            if libc::connect(fd, &dst as *const _ as *const libc::sockaddr, std::mem::size_of::<libc::sockaddr_in>() as u32) != 0 {
                let e = std::io::Error::last_os_error();
                libc::close(fd);
                return Err(e);
            }
            let s = TcpStream::from_raw_fd(fd);
            s.set_nodelay(true)?;
            Ok(s)
        }
    }

    /// Connect from a local port that is registered first so that the server's accept of exactly
    /// this connection fails with ECONNABORTED.
    pub fn connect_to_be_aborted(&self) -> std::io::Result<TcpStream> {
        use std::os::unix::io::FromRawFd;
        unsafe {
            let fd = libc::socket(libc::AF_INET, libc::SOCK_STREAM | libc::SOCK_CLOEXEC, 0);
            if fd < 0 {
                return Err(std::io::Error::last_os_error());
            }
            let mut sa: libc::sockaddr_in = std::mem::zeroed();
            sa.sin_family = libc::AF_INET as u16;
            sa.sin_addr.s_addr = u32::from_ne_bytes([127, 0, 0, 1]);
            sa.sin_port = 0;
            if libc::bind(fd, &sa as *const _ as *const libc::sockaddr, std::mem::size_of::<libc::sockaddr_in>() as u32) != 0 {
                let e = std::io::Error::last_os_error();
                libc::close(fd);
                return Err(e);
            }
            let mut sl = std::mem::size_of::<libc::sockaddr_in>() as libc::socklen_t;
            libc::getsockname(fd, &mut sa as *mut _ as *mut libc::sockaddr, &mut sl);
            let local_port = u16::from_be(sa.sin_port);
            iohook::accept_abort_port(local_port);
            let mut dst: libc::sockaddr_in = std::mem::zeroed();
            dst.sin_family = libc::AF_INET as u16;
            dst.sin_addr.s_addr = u32::from_ne_bytes([127, 0, 0, 1]);
            dst.sin_port = self.port.to_be();
            if libc::connect(fd, &dst as *const _ as *const libc::sockaddr, std::mem::size_of::<libc::sockaddr_in>() as u32) != 0 {
                let e = std::io::Error::last_os_error();
                libc::close(fd);
                return Err(e);
            }
            let s = TcpStream::from_raw_fd(fd);
            s.set_nodelay(true)?;
            Ok(s)
        }
    }

    pub fn fire_shutdown(&mut self) {
        if let Some(tx) = self.shutdown_tx.take() {
            let _ = tx.send(());
        }
    }

    /// Wait until `run()` has returned.
    pub fn wait_returned(&self, timeout: Duration) -> bool {
        let t0 = Instant::now();
        while !self.run_returned.load(Ordering::SeqCst) {
            if t0.elapsed() > timeout {
                return false;
            }
            std::thread::sleep(Duration::from_micros(50));
        }
        true
    }

    /// Is the server thread still alive (it dies with a panic that escapes `run()`)?
    pub fn thread_finished(&self) -> bool {
        self.thread.as_ref().map_or(true, |t| t.is_finished())
    }

    /// Quiescence: server thread idle with a newer epoch than `e0`, no store call between its
    /// gates, and the same still true after a short stability window.
    pub fn quiesce(&self, e0: u64) -> bool {
        let t0 = Instant::now();
        let ping = canary_ping();
        // phase 1: an event that reaches the server wakes it at once (loopback delivery is synchronous);
        // if its epoch has not moved within a grace period the event did not concern it
        while iohook::srv_epoch() <= e0 && t0.elapsed() < Duration::from_micros(2500) {
            if !iohook::srv_idle() {
                break;
            }
            std::thread::sleep(Duration::from_micros(50));
        }
        if iohook::srv_epoch() <= e0 && iohook::srv_idle() {
            // about to conclude that the event did not concern the server: on a loaded machine a
            // woken thread may simply not have run yet. A canary thread woken at the start of this
            // call must have run (and then the server gets the same grace again) first.
            let t1 = Instant::now();
            while !canary_acked(ping) && t1.elapsed() < Duration::from_secs(2) {
                std::thread::sleep(Duration::from_micros(50));
            }
            if t1.elapsed() > Duration::from_micros(200) {
                let t2 = Instant::now();
                let extra = (t1.elapsed() * 4).min(Duration::from_millis(500));
                while iohook::srv_epoch() <= e0 && iohook::srv_idle() && t2.elapsed() < extra {
                    std::thread::sleep(Duration::from_micros(50));
                }
            }
        }
        let e0 = if iohook::srv_epoch() <= e0 && iohook::srv_idle() { e0.saturating_sub(1) } else { e0 };
        loop {
            if t0.elapsed() > Duration::from_secs(10) {
                return false;
            }
            // once run() has returned nothing is driven any more (the thread may still be busy
            // tearing the runtime down, which waits for commands held on the blocking pool)
            if self.thread_finished() || self.run_returned.load(Ordering::SeqCst) {
                return true;
            }
            let running_free = {
                let st = self.gate.m.lock().unwrap();
                // held = waiting at the gate before the store, or after it; everything else that has
                // arrived and not yet left is running free
                let held = st.ops.iter().filter(|o| !o.released_before || (o.done && !o.released_after)).count();
                st.inflight > held
            };
            if iohook::srv_idle() && iohook::srv_epoch() > e0 && !running_free {
                let e1 = iohook::srv_epoch();
                let n1 = self.gate.n_ops();
                std::thread::sleep(Duration::from_micros(400));
                if iohook::srv_idle() && iohook::srv_epoch() == e1 && self.gate.n_ops() == n1 {
                    return true;
                }
            } else {
                std::thread::sleep(Duration::from_micros(30));
            }
        }
    }

    pub fn epoch(&self) -> u64 {
        iohook::srv_epoch()
    }

    /// Let `ms` milliseconds pass for the server: every timer its thread sleeps on fires as if that
    /// much time had gone by. A server that sleeps on no timer (the pinned one, when idle) does not
    /// notice. Returns how much of the time was actually consumed by timers.
    pub fn let_time_pass(&self, ms: i64) -> i64 {
        if iohook::srv_idle_without_timer() {
            return 0;
        }
        let e0 = self.epoch();
        iohook::srv_advance_time(ms);
        // a thread sleeping on a timer looks for the request every 2 ms
        let t0 = Instant::now();
        while iohook::srv_time_budget_left() > 0 && t0.elapsed() < Duration::from_millis(8) {
            std::thread::sleep(Duration::from_micros(200));
        }
        let mut last = iohook::srv_time_budget_left();
        // keep going while timers keep consuming it (a periodic timer takes several rounds)
        let t1 = Instant::now();
        while last > 0 && last < ms && t1.elapsed() < Duration::from_secs(2) {
            std::thread::sleep(Duration::from_millis(3));
            let now = iohook::srv_time_budget_left();
            if now == last {
                break;
            }
            last = now;
        }
        let left = iohook::srv_time_budget_left();
        iohook::srv_time_reset();
        self.quiesce(e0);
        ms - left
    }

    /// Shut the server down and release everything. Returns false if `run()` did not return.
    pub fn stop(mut self) -> bool {
        self.gate.release_all();
        self.fire_shutdown();
        let ok = self.wait_returned(Duration::from_secs(6));
        if ok {
            if let Some(t) = self.thread.take() {
                let _ = t.join();
            }
        }
        self.kv = None;
        ok
    }

    pub fn store_contents(&self, keys: &[Vec<u8>]) -> Kv {
        let mut m = Kv::new();
        for k in keys {
            if let Ok(Some(v)) = self.handle.get(Bytes::from(k.clone())) {
                m.insert(k.clone(), v.to_vec());
            }
        }
        m
    }
}

// ---------------------------------------------------------------------------------------------
// client helpers

pub fn try_read(s: &mut TcpStream) -> (Vec<u8>, bool, Option<String>) {
    // (bytes, eof, error)
    s.set_nonblocking(true).ok();
    let mut out = vec![];
    let mut buf = [0u8; 65536];
    let mut eof = false;
    let mut err = None;
    loop {
        match s.read(&mut buf) {
            Ok(0) => {
                eof = true;
                break;
            }
            Ok(n) => out.extend_from_slice(&buf[..n]),
            Err(e) if e.kind() == std::io::ErrorKind::WouldBlock => break,
            Err(e) => {
                err = Some(format!("{:?}", e.kind()));
                break;
            }
        }
    }
    s.set_nonblocking(false).ok();
    (out, eof, err)
}

/// Blocking read of exactly `n` bytes (or until EOF / error / timeout). Returns what arrived.
pub fn read_n(s: &mut TcpStream, n: usize, timeout: Duration) -> (Vec<u8>, &'static str) {
    s.set_read_timeout(Some(timeout)).ok();
    let mut out = Vec::with_capacity(n);
    let mut buf = vec![0u8; 65536];
    while out.len() < n {
        let want = (n - out.len()).min(buf.len());
        match s.read(&mut buf[..want]) {
            Ok(0) => return (out, "eof"),
            Ok(k) => out.extend_from_slice(&buf[..k]),
            Err(e) if e.kind() == std::io::ErrorKind::WouldBlock || e.kind() == std::io::ErrorKind::TimedOut => return (out, "timeout"),
            Err(_) => return (out, "error"),
        }
    }
    (out, "ok")
}

/// Read until EOF / error / timeout.
pub fn read_to_end(s: &mut TcpStream, timeout: Duration) -> (Vec<u8>, &'static str) {
    s.set_read_timeout(Some(timeout)).ok();
    let mut out = vec![];
    let mut buf = vec![0u8; 65536];
    loop {
        match s.read(&mut buf) {
            Ok(0) => return (out, "eof"),
            Ok(k) => out.extend_from_slice(&buf[..k]),
            Err(e) if e.kind() == std::io::ErrorKind::WouldBlock || e.kind() == std::io::ErrorKind::TimedOut => return (out, "timeout"),
            Err(_) => return (out, "reset"),
        }
    }
}

/// Read one complete RESP frame (blocking, with timeout).
pub fn read_frame(s: &mut TcpStream, timeout: Duration) -> Result<(RFrame, Vec<u8>), String> {
    s.set_read_timeout(Some(timeout)).ok();
    let mut acc = vec![];
    let mut buf = vec![0u8; 65536];
    loop {
        match resp_decode(&acc, 0) {
            Ok((f, n)) if n == acc.len() => return Ok((f, acc)),
            Ok((_, n)) => return Err(format!("more than one frame arrived: {} of {} bytes", n, acc.len())),
            Err(RErr::Bad) => return Err(format!("malformed reply {:?}", String::from_utf8_lossy(&acc))),
            Err(RErr::Incomplete) => {}
        }
        match s.read(&mut buf) {
            Ok(0) => return Err(format!("eof after {} bytes {:?}", acc.len(), String::from_utf8_lossy(&acc[..acc.len().min(40)]))),
            Ok(k) => acc.extend_from_slice(&buf[..k]),
            Err(e) if e.kind() == std::io::ErrorKind::WouldBlock || e.kind() == std::io::ErrorKind::TimedOut => return Err(format!("timeout after {} bytes", acc.len())),
            Err(e) => return Err(format!("error {:?} after {} bytes", e.kind(), acc.len())),
        }
    }
}

// ---------------------------------------------------------------------------------------------
// requests and the map model at the RESP level

#[derive(Clone, Debug, PartialEq, Eq)]
pub enum Req {
    Set(Vec<u8>, Vec<u8>),
    Get(Vec<u8>),
    Del(Vec<Vec<u8>>),
}

impl Req {
    pub fn encode(&self) -> Vec<u8> {
        match self {
            Req::Set(k, v) => cmd(&[b"SET", k, v]),
            Req::Get(k) => cmd(&[b"GET", k]),
            Req::Del(ks) => {
                let mut parts: Vec<&[u8]> = vec![b"DEL"];
                for k in ks {
                    parts.push(k);
                }
                cmd(&parts)
            }
        }
    }
    pub fn apply(&self, m: &mut Kv) -> RFrame {
        match self {
            Req::Set(k, v) => {
                m.insert(k.clone(), v.clone());
                RFrame::Simple(b"OK".to_vec())
            }
            Req::Get(k) => match m.get(k) {
                Some(v) => RFrame::Bulk(v.clone()),
                None => RFrame::Null,
            },
            Req::Del(ks) => {
                let mut n = 0;
                for k in ks {
                    if m.remove(k).is_some() {
                        n += 1;
                    }
                }
                RFrame::Integer(n)
            }
        }
    }
    pub fn show(&self) -> String {
        match self {
            Req::Set(k, v) => format!("SET {} {}", hex(k), hex(v)),
            Req::Get(k) => format!("GET {}", hex(k)),
            Req::Del(ks) => format!("DEL {}", ks.iter().map(|k| hex(k)).collect::<Vec<_>>().join(" ")),
        }
    }
    pub fn to_json(&self) -> Value {
        match self {
            Req::Set(k, v) => json!({"set": [k, v]}),
            Req::Get(k) => json!({"get": k}),
            Req::Del(ks) => json!({"del": ks}),
        }
    }
    pub fn from_json(v: &Value) -> Option<Req> {
        let b = |x: &Value| -> Option<Vec<u8>> { x.as_array().map(|a| a.iter().map(|y| y.as_u64().unwrap_or(0) as u8).collect()) };
        if let Some(a) = v.get("set") {
            return Some(Req::Set(b(&a[0])?, b(&a[1])?));
        }
        if let Some(a) = v.get("get") {
            return Some(Req::Get(b(a)?));
        }
        if let Some(a) = v.get("del") {
            return Some(Req::Del(a.as_array()?.iter().filter_map(b).collect()));
        }
        None
    }
    /// Interpret a decoded frame as the server's command parser does (None = not a well-formed command).
    pub fn from_frame(f: &RFrame) -> Option<Req> {
        let RFrame::Array(items) = f else { return None };
        let mut parts: Vec<&Vec<u8>> = vec![];
        for i in items {
            match i {
                RFrame::Bulk(b) => parts.push(b),
                _ => return None,
            }
        }
        let name = parts.first()?;
        let utf8 = |b: &Vec<u8>| std::str::from_utf8(b).is_ok();
        match name.as_slice() {
            b"SET" if parts.len() == 3 && utf8(parts[1]) => Some(Req::Set(parts[1].clone(), parts[2].clone())),
            b"GET" if parts.len() == 2 && utf8(parts[1]) => Some(Req::Get(parts[1].clone())),
            b"DEL" if parts.len() >= 2 && parts[1..].iter().all(|p| utf8(p)) => Some(Req::Del(parts[1..].iter().map(|p| (*p).clone()).collect())),
            _ => None,
        }
    }
}

fn enc(f: &RFrame) -> Vec<u8> {
    let mut v = vec![];
    resp_encode(f, &mut v);
    v
}

// ---------------------------------------------------------------------------------------------
// C06

fn c06_alphabet() -> Vec<Req> {
    let big = vec![b'V'; 9000];
    vec![
        Req::Set(b"a".to_vec(), b"x".to_vec()),
        Req::Set(b"a".to_vec(), b"a\r\nb\0".to_vec()),
        Req::Set(b"b".to_vec(), vec![]),
        Req::Set("é".as_bytes().to_vec(), b"\r\n".to_vec()),
        Req::Get(b"a".to_vec()),
        Req::Get(b"b".to_vec()),
        Req::Get(b"c".to_vec()),
        Req::Get("é".as_bytes().to_vec()),
        Req::Del(vec![b"a".to_vec()]),
        Req::Del(vec![b"a".to_vec(), b"b".to_vec()]),
        Req::Del(vec![b"a".to_vec(), b"a".to_vec()]),
        Req::Del(vec![b"c".to_vec()]),
        Req::Set(b"b".to_vec(), big),
        // three keys, the first absent; a value that ends with a lone CR
        Req::Del(vec![b"c".to_vec(), b"a".to_vec(), b"b".to_vec()]),
        Req::Set(b"a".to_vec(), b"x\r".to_vec()),
    ]
}

#[derive(Clone, Debug)]
pub enum Delivery {
    Whole,
    ByteWise,
    Cuts(Vec<usize>),
    LockStep,
    /// send the first `c` bytes, WAIT for the replies of every request completely contained in
    /// them, then send the rest (a reply must not depend on bytes the client has not sent yet)
    CutWait(usize),
    /// key "h" holds a value of this many bytes (put there through the handle); the client sends
    /// the whole word and starts reading only once the server has gone idle, i.e. is blocked in the
    /// middle of a reply that does not fit into the socket buffers
    LateReader(usize),
    /// whole delivery, on a server whose PREVIOUS connection died in the middle of a request
    /// (nothing of a dead connection may reach the next one)
    AfterDead,
}

pub fn huge_value(n: usize) -> Vec<u8> {
    (0..n).map(|i| (i % 251) as u8).collect()
}

fn caps_for(d: &Delivery, n: usize) -> Option<Vec<usize>> {
    match d {
        Delivery::Whole | Delivery::LockStep | Delivery::CutWait(_) | Delivery::LateReader(_) | Delivery::AfterDead => None,
        Delivery::ByteWise => Some(vec![1; n]),
        Delivery::Cuts(c) => {
            let mut v = vec![];
            let mut last = 0;
            for &x in c {
                v.push(x - last);
                last = x;
            }
            // the tail is handed over in one piece only if it can sit in the socket buffer at once
            // (the scripted recv waits until a whole segment is available)
            if n - last <= 60_000 {
                v.push(n - last);
            }
            Some(v)
        }
    }
}

/// Execute one C06 case on a fresh server. Returns (class, message) on violation.
pub fn c06_case(dir: &Path, word: &[Req], delivery: &Delivery) -> Result<String, (String, String)> {
    let srv = Srv::start(dir, &SrvCfg { max_connections: 4, max_file_size: 1 << 31, gated: false }).map_err(|e| ("MACHINERY".to_string(), e))?;
    let mut model = Kv::new();
    let mut stream = vec![];
    let mut expected = vec![];
    for r in word {
        stream.extend_from_slice(&r.encode());
        expected.extend_from_slice(&enc(&r.apply(&mut model)));
    }
    if let Delivery::LateReader(n) = delivery {
        let v = huge_value(*n);
        srv.handle.set(Bytes::from_static(b"h"), Bytes::from(v.clone())).map_err(|e| ("MACHINERY".to_string(), e.to_string()))?;
        model.insert(b"h".to_vec(), v);
        expected.clear();
        let mut m2 = model.clone();
        for r in word {
            expected.extend_from_slice(&enc(&r.apply(&mut m2)));
        }
        model = m2;
    }
    if let Delivery::AfterDead = delivery {
        for dead in [&b"*3\r\n$3\r\nSET\r\n$1\r\na\r\n$5\r\nhel"[..], b"*2\r\n$3\r\nGET\r\n$1", b"*", b"!bad\r\n*2\r\n$3\r\nDEL\r\n$1\r\nb\r"] {
            let e0 = srv.epoch();
            if let Ok(mut d) = srv.connect() {
                let _ = d.write_all(dead);
                srv.quiesce(e0);
                drop(d);
                srv.quiesce(srv.epoch());
            }
        }
    }
    let res = (|| -> Result<String, (String, String)> {
        let mut c = srv.connect().map_err(|e| ("MACHINERY".to_string(), format!("connect: {}", e)))?;
        let mut got = vec![];
        match delivery {
            Delivery::LateReader(_) => {
                let e0 = srv.epoch();
                c.write_all(&stream).map_err(|e| ("connection-broken".to_string(), format!("write: {}", e)))?;
                // nothing is read until the server has nothing left that it can do
                if !srv.quiesce(e0) {
                    return Err(("MACHINERY".into(), "no quiescence with a client that does not read".into()));
                }
            }
            Delivery::LockStep => {
                let mut m2 = Kv::new();
                for r in word {
                    c.write_all(&r.encode()).map_err(|e| ("connection-broken".to_string(), format!("write: {}", e)))?;
                    let want = enc(&r.apply(&mut m2));
                    let (b, how) = read_n(&mut c, want.len(), Duration::from_secs(6));
                    got.extend_from_slice(&b);
                    if how != "ok" {
                        return Err(("reply-missing".into(), format!("{} while waiting for the reply to {} (got {:?})", how, r.show(), String::from_utf8_lossy(&b))));
                    }
                }
            }
            Delivery::CutWait(cutpos) => {
                // replies owed after the first c bytes
                let mut m2 = Kv::new();
                let mut owed = vec![];
                let mut pos = 0;
                for r in word {
                    pos += r.encode().len();
                    if pos <= *cutpos {
                        owed.extend_from_slice(&enc(&r.apply(&mut m2)));
                    }
                }
                iohook::recv_set_script(vec![*cutpos, stream.len() - *cutpos], usize::MAX);
                c.write_all(&stream[..*cutpos]).map_err(|e| ("connection-broken".to_string(), format!("write: {}", e)))?;
                let (bts, how) = read_n(&mut c, owed.len(), Duration::from_secs(6));
                got.extend_from_slice(&bts);
                if how != "ok" {
                    return Err(("reply-waits-for-bytes-not-yet-sent".into(), format!("{} bytes of the stream sent: {} while waiting for the {} reply bytes owed for the completed requests, got {:?}", cutpos, how, owed.len(), String::from_utf8_lossy(&bts))));
                }
                c.write_all(&stream[*cutpos..]).map_err(|e| ("connection-broken".to_string(), format!("write: {}", e)))?;
            }
            d => {
                if let Some(caps) = caps_for(d, stream.len()) {
                    iohook::recv_set_script(caps, usize::MAX);
                }
                c.write_all(&stream).map_err(|e| ("connection-broken".to_string(), format!("write: {}", e)))?;
            }
        }
        c.shutdown(NetShutdown::Write).ok();
        let (rest, how) = read_to_end(&mut c, Duration::from_secs(6));
        got.extend_from_slice(&rest);
        if how == "timeout" {
            return Err(("reply-stream-does-not-end".into(), format!("no end of stream within 6 s after {} bytes", got.len())));
        }
        if got != expected {
            let (gf, _, _) = resp_split(&got);
            let (ef, _, _) = resp_split(&expected);
            let class = if gf.len() < ef.len() {
                "reply-missing"
            } else if gf.len() > ef.len() {
                "extra-reply"
            } else {
                "wrong-reply"
            };
            let msg = if gf.len().max(ef.len()) > 12 {
                let d = gf.iter().zip(ef.iter()).position(|(x, y)| x != y).unwrap_or(gf.len().min(ef.len()));
                format!("{} replies ({} bytes), expected {} ({} bytes); first difference at reply #{}: got {:?}, expected {:?}", gf.len(), got.len(), ef.len(), expected.len(), d + 1, gf.get(d).map(|f| show_frames(std::slice::from_ref(f))), ef.get(d).map(|f| show_frames(std::slice::from_ref(f))))
            } else {
                format!("replies {:?} ({} bytes), expected {:?} ({} bytes)", show_frames(&gf), got.len(), show_frames(&ef), expected.len())
            };
            return Err((class.into(), msg));
        }
        Ok(format!("{} replies", word.len()))
    })();
    iohook::recv_set_script(vec![], usize::MAX);
    // store contents through the handle
    let mut keys: Vec<Vec<u8>> = vec![b"a".to_vec(), b"b".to_vec(), b"c".to_vec(), "é".as_bytes().to_vec(), b"h".to_vec()];
    for r in word {
        match r {
            Req::Set(k, _) | Req::Get(k) => keys.push(k.clone()),
            Req::Del(ks) => keys.extend(ks.iter().cloned()),
        }
    }
    keys.sort();
    keys.dedup();
    let contents = srv.store_contents(&keys);
    let stopped = srv.stop();
    let r = res?;
    if contents != model {
        return Err(("store-differs-from-model".into(), format!("store {:?}, model {:?}", show_kv(&contents), show_kv(&model))));
    }
    if !stopped {
        return Err(("MACHINERY".into(), "server did not stop".into()));
    }
    Ok(r)
}

fn show_kv(m: &Kv) -> Vec<(String, String)> {
    m.iter().map(|(k, v)| (hex(k), if v.len() > 64 { format!("<{} bytes:{:016x}>", v.len(), fnv(v)) } else { hex(v) })).collect()
}
fn show_frames(f: &[RFrame]) -> String {
    let s = format!("{:?}", f.iter().map(|x| match x {
        RFrame::Bulk(b) if b.len() > 64 => format!("$<{} bytes:{:016x}>", b.len(), fnv(b)),
        RFrame::Bulk(b) => format!("${}", hex(b)),
        RFrame::Simple(s) => format!("+{}", String::from_utf8_lossy(s)),
        RFrame::Error(s) => format!("-{}", String::from_utf8_lossy(s)),
        RFrame::Integer(i) => format!(":{}", i),
        RFrame::Null => "nil".into(),
        RFrame::Array(_) => "array".into(),
    }).collect::<Vec<_>>());
    s
}

fn words_of(alpha: &[Req], depth: usize) -> Vec<Vec<Req>> {
    let mut out: Vec<Vec<Req>> = vec![];
    let mut frontier: Vec<Vec<Req>> = vec![vec![]];
    for _ in 0..depth {
        let mut next = vec![];
        for w in &frontier {
            for a in alpha {
                let mut w2 = w.clone();
                w2.push(a.clone());
                next.push(w2);
            }
        }
        out.extend(next.iter().cloned());
        frontier = next;
    }
    out
}

fn c06(job: &Job, sh: &mut Shard, t0: Instant) {
    let alpha = c06_alphabet();
    let small: Vec<Req> = alpha.iter().filter(|r| !matches!(r, Req::Set(_, v) if v.len() > 1000)).cloned().collect();
    let depth = job.tier.pick(3, 4);
    let mut cases: Vec<(Vec<Req>, Delivery)> = vec![];
    // words over the 12 small requests (depth d), plus the big value at depth <= 2
    let mut words = words_of(&small, depth);
    for w in words_of(&alpha, 2) {
        if w.iter().any(|r| matches!(r, Req::Set(_, v) if v.len() > 1000)) {
            words.push(w);
        }
    }
    // a reply larger than the 8 KiB write buffer FOLLOWED by further replies (and requests behind a
    // large request): SET b <9000 B> then two more requests over a reduced alphabet
    {
        let big_set = alpha.iter().find(|r| matches!(r, Req::Set(_, v) if v.len() > 1000)).cloned().unwrap();
        let tail = vec![Req::Get(b"b".to_vec()), Req::Get(b"a".to_vec()), Req::Set(b"a".to_vec(), b"x".to_vec()), Req::Del(vec![b"b".to_vec()])];
        for x in &tail {
            for y in &tail {
                words.push(vec![big_set.clone(), x.clone(), y.clone()]);
                words.push(vec![x.clone(), big_set.clone(), Req::Get(b"b".to_vec()), y.clone()]);
            }
        }
    }
    for w in &words {
        let n: usize = w.iter().map(|r| r.encode().len()).sum();
        let has_big = n > 2000;
        cases.push((w.clone(), Delivery::Whole));
        cases.push((w.clone(), Delivery::LockStep));
        if w.len() <= 2 && !has_big {
            cases.push((w.clone(), Delivery::AfterDead));
        }
        if !has_big {
            cases.push((w.clone(), Delivery::ByteWise));
        }
        // every single cut (big values: cuts near the ends and around the 8 KiB buffer boundary)
        let cut_pos: Vec<usize> = if has_big { (1..40).chain(8180..8200).chain((n - 40)..n).filter(|&c| c > 0 && c < n).collect() } else { (1..n).collect() };
        if w.len() <= job.tier.pick(2, 3) {
            for &c in &cut_pos {
                cases.push((w.clone(), Delivery::Cuts(vec![c])));
                if w.len() >= 2 && !has_big {
                    cases.push((w.clone(), Delivery::CutWait(c)));
                }
            }
        }
        // every pair of cuts for short words
        if w.len() <= job.tier.pick(1, 2) && !has_big {
            for a in 1..n {
                for b2 in (a + 1)..n {
                    cases.push((w.clone(), Delivery::Cuts(vec![a, b2])));
                }
            }
        }
    }
    // STRUCTURED words (sizes and counts the exhaustive words do not reach), delivered whole and in
    // lock-step: values that look like RESP frames; DEL of 9 .. 1000 keys (multi-digit counts, with
    // misses and repeats); values whose reply header / trailer straddles the 8 KiB and 16 KiB marks;
    // long keys; thousands of requests on one connection
    {
        let mut sw: Vec<Vec<Req>> = vec![];
        let mut count_words: Vec<Vec<Req>> = vec![];
        let a = || b"a".to_vec();
        let b_ = || b"b".to_vec();
        for v in [&b"$5\r\nhello\r\n"[..], b"-ERR x", b"+OK", b":1", b"*2\r\n$1\r\na\r\n$1\r\nb\r\n", b"$-1", b"\r\n\r\n", b"$", b"-", b"nil", b"0", b"-1", b"\xff\xfe", b"*3\r\n$3\r\nSET\r\n$1\r\na\r\n$1\r\nz\r\n"] {
            sw.push(vec![Req::Set(a(), v.to_vec()), Req::Get(a()), Req::Set(b_(), v.to_vec()), Req::Del(vec![a()]), Req::Get(a()), Req::Get(b_())]);
        }
        let ns: Vec<usize> = if job.tier == Tier::Quick { vec![9, 10, 11, 100, 300] } else { vec![8, 9, 10, 11, 12, 99, 100, 101, 255, 256, 999, 1000, 1001] };
        for n in ns {
            let kk = |i: usize| format!("k{:04}", i).into_bytes();
            let mut w: Vec<Req> = (0..n).map(|i| Req::Set(kk(i), format!("{}", i).into_bytes())).collect();
            let mut dk: Vec<Vec<u8>> = (0..n).map(kk).collect();
            w.push(Req::Get(kk(n - 1)));
            w.push(Req::Del(dk.clone()));
            dk.push(b"absent".to_vec());
            dk.push(kk(0));
            w.push(Req::Del(dk.clone()));
            w.push(Req::Get(kk(0)));
            // set them again and delete with every key named twice
            w.extend((0..n).map(|i| Req::Set(kk(i), b"2".to_vec())));
            let twice: Vec<Vec<u8>> = (0..n).flat_map(|i| [kk(i), kk(i)]).collect();
            w.push(Req::Del(twice));
            sw.push(w);
        }
        // DEL of n present keys for EVERY n in a range (the count is the only integer the server sends)
        let counts: Vec<usize> = if job.tier == Tier::Quick { (1..=40).chain(250..=270).chain(510..=515).chain([1000, 1024, 1025]).collect() } else { (1..=1100).chain([4095, 4096, 4097, 65_535, 65_536, 65_537]).collect() };
        for n in counts {
            let kk = |i: usize| format!("d{:05}", i).into_bytes();
            let mut w: Vec<Req> = (0..n).map(|i| Req::Set(kk(i), b"1".to_vec())).collect();
            w.push(Req::Del((0..n).map(kk).collect()));
            w.push(Req::Get(kk(0)));
            count_words.push(w);
        }
        let ls: Vec<usize> = if job.tier == Tier::Quick { (8176..8196).step_by(1).collect() } else { (8160..8210).chain(16_360..16_400).chain(65_520..65_545).collect() };
        for l in ls {
            sw.push(vec![Req::Set(a(), vec![b'q'; l]), Req::Get(a()), Req::Get(a()), Req::Set(b_(), b"x".to_vec()), Req::Get(b_()), Req::Get(a())]);
        }
        // reply headers with one digit more (9 999 / 10 000, 99 999 / 100 000) after small replies that
        // already sit in the write buffer; the second GET of a large value on the same connection
        for l in (9_990usize..=10_010).chain(99_990..=100_010).step_by(if job.tier == Tier::Quick { 3 } else { 1 }) {
            for k in [0usize, 3] {
                let mut w = vec![Req::Set(a(), b"s".to_vec())];
                w.extend((0..k).map(|_| Req::Get(a())));
                w.push(Req::Set(b_(), vec![b'w'; l]));
                w.push(Req::Get(b_()));
                w.push(Req::Get(a()));
                w.push(Req::Get(b_()));
                w.push(Req::Del(vec![b"none".to_vec()]));
                w.push(Req::Get(b_()));
                sw.push(w);
            }
        }
        for kl in [255usize, 256, 300, 8191, 8192, 8193, 70_000] {
            let k = vec![b'K'; kl];
            sw.push(vec![Req::Set(k.clone(), b"v".to_vec()), Req::Get(k.clone()), Req::Del(vec![k.clone(), k.clone()]), Req::Get(k.clone())]);
        }
        for n in [if job.tier == Tier::Quick { 1500usize } else { 20_000 }] {
            let mut w = vec![];
            for i in 0..n {
                w.push(Req::Set(a(), format!("{}", i).into_bytes()));
                if i % 3 == 0 {
                    w.push(Req::Get(a()));
                }
                if i % 7 == 0 {
                    w.push(Req::Del(vec![a(), b_()]));
                }
            }
            sw.push(w);
        }
        for w in count_words {
            cases.push((w, Delivery::Whole));
        }
        for w in sw {
            cases.push((w.clone(), Delivery::Whole));
            let n: usize = w.iter().map(|r| r.encode().len()).sum();
            if w.len() <= 700 {
                cases.push((w.clone(), Delivery::LockStep));
            }
            // cuts at the buffer marks
            for c in [8191usize, 8192, 8193, 16_384] {
                if c < n {
                    cases.push((w.clone(), Delivery::Cuts(vec![c])));
                }
            }
        }
    }
    // replies that do not fit into the socket buffers, to a client that reads late: the value sizes
    // straddle the buffer sizes of a loopback connection (tcp_wmem / tcp_rmem maxima are 4-6 MiB)
    {
        let geth = Req::Get(b"h".to_vec());
        let tails = vec![vec![], vec![Req::Get(b"a".to_vec())], vec![Req::Set(b"a".to_vec(), b"x".to_vec()), Req::Get(b"a".to_vec())], vec![Req::Del(vec![b"h".to_vec(), b"h".to_vec(), b"zz".to_vec()]), geth.clone()]];
        let sizes: Vec<usize> = if job.tier == Tier::Quick { vec![300_000, 8 << 20] } else { vec![20_000, 300_000, 1 << 20, 3 << 20, 8 << 20, 16 << 20] };
        for n in sizes {
            for reps in [1usize, 2, 5] {
                for t in &tails {
                    let mut w = vec![geth.clone(); reps];
                    w.extend(t.iter().cloned());
                    cases.push((w, Delivery::LateReader(n)));
                }
            }
        }
        // a deep pipeline of moderately large replies (40 x 1 MiB) read late
        cases.push((vec![geth.clone(); 40], Delivery::LateReader(1 << 20)));
    }
    let dir = job.scratch().join("store");
    let total = cases.len();
    for (i, (w, d)) in cases.into_iter().enumerate() {
        if i % job.nshards != job.shard {
            continue;
        }
        if t0.elapsed().as_secs() > job.deadline_s || sh.viol_counts.values().sum::<u64>() >= 6 {
            sh.capped = true;
            sh.notes.insert(format!("stopped (time cap or 6 violations in this shard) after {} of {} cases", i, total));
            break;
        }
        let case = json!({"engine": "net", "kind": "c06", "word": w.iter().map(|r| r.to_json()).collect::<Vec<_>>(), "word_text": w.iter().map(|r| r.show()).collect::<Vec<_>>(), "delivery": format!("{:?}", d), "cuts": match &d { Delivery::Cuts(c) => json!(c), Delivery::ByteWise => json!("bytewise"), Delivery::LockStep => json!("lockstep"), Delivery::Whole => json!("whole"), Delivery::CutWait(c) => json!({"cut_wait": c}), Delivery::LateReader(n) => json!({"late_reader_value_bytes": n}), Delivery::AfterDead => json!("after_dead") }});
        if i % 32 == job.shard {
            job.progress(&case);
        }
        sh.evaluations += 1;
        sh.transitions += w.len() as u64;
        let wkey = fnv(format!("{:?}", w).as_bytes());
        sh.nontrivial.insert(wkey);
        sh.states.insert(fnv(format!("{:?}{:?}", w, d).as_bytes()));
        match c06_case(&dir, &w, &d) {
            Ok(o) => sh.outcome(format!("{} / {}", o, match d { Delivery::Whole => "whole", Delivery::ByteWise => "bytewise", Delivery::Cuts(ref c) if c.len() == 1 => "1 cut", Delivery::Cuts(_) => "2 cuts", Delivery::LockStep => "lockstep", Delivery::CutWait(_) => "cut+wait", Delivery::LateReader(_) => "late reader", Delivery::AfterDead => "after dead connections" })),
            Err((class, msg)) if class == "MACHINERY" => sh.machinery_errors.push(format!("C06 {}: {}", msg, case["word_text"])),
            Err((class, msg)) => {
                // confirm once before reporting
                match c06_case(&dir, &w, &d) {
                    Err((c2, _)) if c2 == class => sh.violate(Violation { class: format!("C06:{}", class), msg: format!("{} | requests {} delivered {:?}", msg, if w.len() > 12 { format!("[{} requests: {:?} ... {:?}]", w.len(), w[..3].iter().map(|r| r.show()).collect::<Vec<_>>(), w[w.len() - 2..].iter().map(|r| { let t = r.show(); if t.len() > 80 { format!("{}...", &t[..80]) } else { t } }).collect::<Vec<_>>()) } else { format!("{:?}", w.iter().map(|r| r.show()).collect::<Vec<_>>()) }, d), case: case.clone() }),
                    other => sh.machinery_errors.push(format!("C06 violation {} not reproduced ({:?}) for {}", class, other.map_err(|e| e.0), case["word_text"])),
                }
            }
        }
        if sh.samples.len() < 2 && i % 97 == job.shard {
            sh.samples.push(case);
        }
    }
    sh.count("recv-calls-on-server-sockets", iohook::recv_count() as u64);
}

// ---------------------------------------------------------------------------------------------
// worker / replay / meta

pub fn worker(job: &Job) -> Shard {
    let mut sh = Shard::default();
    let t0 = Instant::now();
    match job.prop.as_str() {
        "C06" => c06(job, &mut sh, t0),
        "C10" => crate::e5b::c10(job, &mut sh, t0),
        "C11" => crate::e5b::c11(job, &mut sh, t0),
        "C15" => crate::e5b::c15(job, &mut sh, t0),
        "C16" => crate::e5b::c16(job, &mut sh, t0),
        "C20" => crate::e5b::c20_server(job, &mut sh, t0),
        p => panic!("no E5 plan for {}", p),
    }
    rmrf(&job.scratch());
    sh
}

pub fn replay(prop: &str, case: &Value) -> Vec<Violation> {
    let dir = PathBuf::from(format!("/dev/shm/vh-replay-{}", std::process::id()));
    let mut out = vec![];
    match case["kind"].as_str().unwrap_or("") {
        "c06" => {
            let word: Vec<Req> = case["word"].as_array().map(|a| a.iter().filter_map(Req::from_json).collect()).unwrap_or_default();
            let d = match &case["cuts"] {
                Value::Array(a) => Delivery::Cuts(a.iter().map(|x| x.as_u64().unwrap() as usize).collect()),
                Value::String(s) if s == "bytewise" => Delivery::ByteWise,
                Value::String(s) if s == "lockstep" => Delivery::LockStep,
                Value::String(s) if s == "after_dead" => Delivery::AfterDead,
                Value::Object(o) if o.contains_key("cut_wait") => Delivery::CutWait(o["cut_wait"].as_u64().unwrap_or(1) as usize),
                Value::Object(o) if o.contains_key("late_reader_value_bytes") => Delivery::LateReader(o["late_reader_value_bytes"].as_u64().unwrap_or(1) as usize),
                _ => Delivery::Whole,
            };
            if let Err((class, msg)) = c06_case(&dir, &word, &d) {
                out.push(Violation { class: format!("{}:{}", prop, class), msg, case: case.clone() });
            }
        }
        _ => out = crate::e5b::replay(prop, case, &dir),
    }
    rmrf(&dir);
    out
}

pub fn report_meta(prop: &str, tier: Tier) -> (String, Value, Vec<String>) {
    let common = vec![
        "the server future runs on a current-thread tokio runtime owned by the harness; tokio's semaphore / broadcast / mpsc / spawn_blocking are trusted to be linearizable; interleavings inside tokio's multi-thread scheduler are not enumerated".to_string(),
        "select! start-branch order is not owned (tokio seeds it from a process-global counter): both continuations are accepted where a frame and the shutdown signal are ready in the same poll".to_string(),
        "clients are real TCP sockets on 127.0.0.1; server-side recv returns exactly the scripted segment lengths (interposed recv waits until the whole segment has arrived)".to_string(),
    ];
    match prop {
        "C06" => (
            format!("request words over 14 small requests (incl. a three-key DEL whose first key is absent and a value ending in a lone CR) (SET/GET/DEL on keys a, b, c, é; values with CR LF NUL, empty) up to depth {} plus words of depth <= 2 containing a 9 000-byte value; each word's byte stream is delivered to a fresh real server whole (full pipelining), in lock-step, one byte per recv, with every single cut — both sending everything before reading and WAITING for the replies of the completed requests before sending the rest — (words of length <= {}) and with every pair of cuts (words of length <= {}); the complete reply byte stream up to end-of-stream must equal the reference encoding of the map model's answers, and the store (read through the handle) must equal the model. Distinct+non-trivial = distinct request words.", tier.pick(3, 4), tier.pick(2, 3), tier.pick(1, 2)),
            json!({"depth": tier.pick(3, 4), "alphabet": c06_alphabet().iter().map(|r| r.show()).collect::<Vec<_>>()}),
            common,
        ),
        _ => crate::e5b::report_meta(prop, tier, common),
    }
}

pub fn child_server(_args: &[String]) -> i32 {
    0
}

#[allow(dead_code)]
fn _unused(_: BTreeMap<u8, u8>, _: LEvent) {}
