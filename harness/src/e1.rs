//! E1 `seq` — bounded-exhaustive operation histories on one real store (DESIGN §5 E1).
//! Serves C01, C02, C05, C12, C13, C14 (E1 half), C19.

use std::collections::{BTreeMap, BTreeSet};
use std::path::{Path, PathBuf};
use std::time::Instant;

use bitcask::storage::bitcask::{Bitcask, Config, Handle, SyncStrategy, VerifMergePolicy};
use bitcask::storage::KeyValueStorage;
use bitcask::verif::Dump;
use bytes::Bytes;
use serde_json::{json, Value};

use crate::common::*;
use crate::iohook::{self, Call};
use crate::model::{self, DataEntry, Kv};

// ---------------------------------------------------------------------------------------------
// alphabet

#[derive(Clone, Copy, Debug, PartialEq, Eq, Hash, PartialOrd, Ord)]
pub enum Op {
    Set(u8, u8),
    Del(u8),
    Merge,
    Reopen,
    /// close and open again with other merge thresholds (they are a parameter of every open)
    ReopenAs(Thr),
    /// set key k to a value of exactly n bytes (SIZE thresholds: entry lengths around powers of two,
    /// data volumes of tens of MiB)
    SetLen(u8, u32),
    /// flush the active file to disk now (what the interval-sync task does on its timer)
    Sync,
    /// set the n keys f00000 .. to generation-g values (COUNT thresholds: thousands of keys)
    Fill(u32, u8),
    /// delete every step-th of the n keys f00000 ..
    Drain(u32, u8),
}

pub fn bulk_key(i: usize) -> Vec<u8> {
    format!("f{:05}", i).into_bytes()
}
pub fn bulk_val(g: u8, i: usize) -> Vec<u8> {
    format!("{}-{}", g, i).into_bytes()
}

pub const NEVER_KEY: u8 = 9;

pub fn key_bytes(k: u8) -> Vec<u8> {
    match k {
        0 => b"a".to_vec(),
        1 => b"b".to_vec(),
        2 => vec![],
        3 => b"\0\xff\r\n".to_vec(),
        4 => vec![b'K'; 300],
        5 => b"c".to_vec(),
        // a key larger than the 8 KiB write buffers (hint records hold keys, not values)
        6 => vec![b'Q'; 9000],
        NEVER_KEY => b"never-written".to_vec(),
        _ => vec![b'k', k],
    }
}
pub fn val_bytes(v: u8) -> Vec<u8> {
    match v {
        0 => b"1".to_vec(),
        1 => b"22".to_vec(),
        2 => vec![],
        3 => b"\r\n\0\xff".to_vec(),
        4 => vec![b'B'; 9000],
        5 => (0..70_000u32).map(|i| (i % 251) as u8).collect(),
        6 => b"333".to_vec(),
        // the literals the reference implementation (Riak's Bitcask) reserves for its deletion
        // marker: to this store they are ordinary values
        7 => b"bitcask_tombstone".to_vec(),
        8 => b"bitcask_tombstone2\0\0\0\x01 and more".to_vec(),
        // entry sizes around the 8 KiB and 16 KiB marks (an entry is 25 + key + value bytes)
        100..=200 => vec![b'S'; 8100 + (v as usize - 100)],
        201..=240 => vec![b'T'; 16_340 + (v as usize - 201)],
        _ => vec![b'v', v],
    }
}

impl Op {
    pub fn to_json(&self) -> Value {
        match self {
            Op::Set(k, v) => json!(["set", k, v]),
            Op::Del(k) => json!(["del", k]),
            Op::Merge => json!(["merge"]),
            Op::Reopen => json!(["reopen"]),
            Op::ReopenAs(t) => json!(["reopen_as", t.name()]),
            Op::SetLen(k, n) => json!(["set_len", k, n]),
            Op::Sync => json!(["sync"]),
            Op::Fill(n, g) => json!(["fill", n, g]),
            Op::Drain(n, st) => json!(["drain", n, st]),
        }
    }
    pub fn from_json(v: &Value) -> Option<Op> {
        let a = v.as_array()?;
        match a.first()?.as_str()? {
            "set" => Some(Op::Set(a.get(1)?.as_u64()? as u8, a.get(2)?.as_u64()? as u8)),
            "del" => Some(Op::Del(a.get(1)?.as_u64()? as u8)),
            "merge" => Some(Op::Merge),
            "reopen" => Some(Op::Reopen),
            "reopen_as" => Some(Op::ReopenAs(Thr::parse(a.get(1)?.as_str()?))),
            "set_len" => Some(Op::SetLen(a.get(1)?.as_u64()? as u8, a.get(2)?.as_u64()? as u32)),
            "sync" => Some(Op::Sync),
            "fill" => Some(Op::Fill(a.get(1)?.as_u64()? as u32, a.get(2)?.as_u64()? as u8)),
            "drain" => Some(Op::Drain(a.get(1)?.as_u64()? as u32, a.get(2)?.as_u64()? as u8)),
            _ => None,
        }
    }
    pub fn show(&self) -> String {
        match self {
            Op::Set(k, v) => format!("set({},{})", hex(&key_bytes(*k)), hex(&val_bytes(*v))),
            Op::Del(k) => format!("del({})", hex(&key_bytes(*k))),
            Op::Merge => "merge".into(),
            Op::Reopen => "reopen".into(),
            Op::ReopenAs(t) => format!("reopen[thresholds {}]", t.name()),
            Op::SetLen(k, n) => format!("set({},<{} bytes>)", hex(&key_bytes(*k)), n),
            Op::Sync => "sync".into(),
            Op::Fill(n, g) => format!("set(f00000..f{:05}, generation {})", *n as usize - 1, g),
            Op::Drain(n, st) => format!("del(every {}-th of f00000..f{:05})", st, *n as usize - 1),
        }
    }
}
pub fn show_word(w: &[Op]) -> String {
    w.iter().map(|o| o.show()).collect::<Vec<_>>().join(" ")
}
pub fn word_json(w: &[Op]) -> Value {
    Value::Array(w.iter().map(|o| o.to_json()).collect())
}
pub fn word_from_json(v: &Value) -> Option<Vec<Op>> {
    v.as_array()?.iter().map(Op::from_json).collect()
}

// ---------------------------------------------------------------------------------------------
// configuration grid

#[derive(Clone, Copy, Debug, PartialEq, Eq, Hash, PartialOrd, Ord)]
pub enum Thr {
    /// every file with a statistics record is selected (`small_file = u64::MAX`)
    All,
    /// files with any dead bytes
    Dead,
    /// files smaller than 27 bytes: an 18-byte tombstone-only file but not a 27-byte one-value file
    Size27,
    /// files smaller than 100 bytes: a newer small file is selected while an OLDER file that holds a
    /// 9000-byte value (and an overwritten value of another key) is not
    Size100,
    /// files whose fragmentation exceeds 0.4
    Frag,
    /// nothing is ever selected
    None,
}
impl Thr {
    pub fn name(&self) -> &'static str {
        match self {
            Thr::All => "ALL",
            Thr::Dead => "DEAD",
            Thr::Size27 => "SIZE27",
            Thr::Size100 => "SIZE100",
            Thr::Frag => "FRAG",
            Thr::None => "NONE",
        }
    }
    pub fn parse(s: &str) -> Thr {
        match s {
            "ALL" => Thr::All,
            "DEAD" => Thr::Dead,
            "SIZE27" => Thr::Size27,
            "SIZE100" => Thr::Size100,
            "FRAG" => Thr::Frag,
            _ => Thr::None,
        }
    }
}

#[derive(Clone, Copy, Debug, PartialEq, Eq, Hash)]
pub struct Cfg {
    pub mfs: u64,
    pub thr: Thr,
    pub cache: usize,
    pub conc: usize,
    pub seed: u64,
    pub sync_always: bool,
    /// wall clock seen by the store: 0 real, 1 runs backwards (an hour per reading), 2 stands still
    pub clock: u8,
}
impl Cfg {
    pub fn new(mfs: u64, thr: Thr, seed: u64) -> Cfg {
        Cfg { mfs, thr, cache: 1, conc: 1, seed, sync_always: false, clock: 0 }
    }
    pub fn to_json(&self) -> Value {
        json!({"max_file_size": self.mfs, "thresholds": self.thr.name(), "readers_cache_size": self.cache, "concurrency": self.conc, "hash_seed": self.seed, "sync_always": self.sync_always, "wall_clock": self.clock})
    }
    pub fn from_json(v: &Value) -> Option<Cfg> {
        Some(Cfg {
            mfs: v["max_file_size"].as_u64()?,
            thr: Thr::parse(v["thresholds"].as_str()?),
            cache: v["readers_cache_size"].as_u64()? as usize,
            conc: v["concurrency"].as_u64()? as usize,
            seed: v["hash_seed"].as_u64()?,
            sync_always: v["sync_always"].as_bool().unwrap_or(false),
            clock: v["wall_clock"].as_u64().unwrap_or(0) as u8,
        })
    }
    pub fn build(&self, dir: &Path) -> Config {
        let mut c = Config::default();
        c.path(dir).concurrency(self.conc).readers_cache_size(self.cache).max_file_size(self.mfs).merge_policy(VerifMergePolicy::Never);
        match self.thr {
            Thr::All => c.merge_threshold_small_file(u64::MAX).merge_threshold_dead_bytes(u64::MAX).merge_threshold_fragmentation(1.0),
            Thr::Dead => c.merge_threshold_small_file(0).merge_threshold_dead_bytes(0).merge_threshold_fragmentation(1.0),
            Thr::Size27 => c.merge_threshold_small_file(27).merge_threshold_dead_bytes(u64::MAX).merge_threshold_fragmentation(1.0),
            Thr::Size100 => c.merge_threshold_small_file(100).merge_threshold_dead_bytes(u64::MAX).merge_threshold_fragmentation(1.0),
            Thr::Frag => c.merge_threshold_small_file(0).merge_threshold_dead_bytes(u64::MAX).merge_threshold_fragmentation(0.4),
            Thr::None => c.merge_threshold_small_file(0).merge_threshold_dead_bytes(u64::MAX).merge_threshold_fragmentation(1.0),
        };
        // (clock values 10.. mean: interval sync with a timer that never fires by itself; the
        // harness issues the sync ticks as operations)
        c.sync(if self.sync_always { SyncStrategy::Always } else if self.clock >= 10 { SyncStrategy::IntervalMs(3_600_000) } else { SyncStrategy::None });
        c
    }
}

pub const MFS_BIG: u64 = 1 << 31;

// ---------------------------------------------------------------------------------------------
// oracles

#[derive(Clone, Copy, Debug, Default)]
pub struct Oracles {
    /// reads and return values agree with the map model after every step (C01 / C02 / C05)
    pub kv: bool,
    /// trailing reopen cycles change nothing (C02)
    pub reopen_stable: bool,
    /// with / without hint files recover the same (C12)
    pub c12: bool,
    /// merge never grows, is minimal under ALL, and is idempotent (C13)
    pub c13: bool,
    /// trace + directory invariants (C14)
    pub c14: bool,
    /// counters equal ground truth (C19)
    pub c19: bool,
}

#[derive(Clone, Debug)]
pub struct Sweep {
    pub name: String,
    pub alphabet: Vec<Op>,
    pub depth: usize,
    pub cfgs: Vec<Cfg>,
    pub oracles: Oracles,
    pub keys: Vec<u8>,
    pub trailing_reopens: usize,
    /// operations executed (unchecked) before the word: start from a non-initial state
    pub preload: Vec<Op>,
    /// explicit word list (structured long histories); when non-empty it replaces alphabet^depth
    pub words: Vec<Vec<Op>>,
}

impl Sweep {
    pub fn nwords(&self) -> u64 {
        if !self.words.is_empty() {
            return self.words.len() as u64;
        }
        (self.alphabet.len() as u64).pow(self.depth as u32)
    }
    pub fn word(&self, mut idx: u64) -> Vec<Op> {
        if !self.words.is_empty() {
            return self.words[idx as usize].clone();
        }
        let a = self.alphabet.len() as u64;
        let mut w = vec![Op::Merge; self.depth];
        for i in (0..self.depth).rev() {
            w[i] = self.alphabet[(idx % a) as usize];
            idx /= a;
        }
        w
    }
}

// ---------------------------------------------------------------------------------------------
// execution of one word

pub struct StepObs {
    pub ret: String,
    pub reads: Vec<(u8, Result<Option<Vec<u8>>, String>)>,
    pub dump: Dump,
    pub files: BTreeMap<String, Vec<u8>>,
}

pub struct Exec {
    pub dir: PathBuf,
    pub cfg: Cfg,
    pub kv: Option<Bitcask>,
    pub h: Option<Handle>,
    pub model: Kv,
    pub incarnation: u32,
}

pub fn b(v: Vec<u8>) -> Bytes {
    Bytes::from(v)
}

fn catch<R>(f: impl FnOnce() -> R) -> Result<R, String> {
    std::panic::catch_unwind(std::panic::AssertUnwindSafe(f)).map_err(|e| {
        let m = if let Some(s) = e.downcast_ref::<&str>() {
            s.to_string()
        } else if let Some(s) = e.downcast_ref::<String>() {
            s.clone()
        } else {
            "?".into()
        };
        format!("PANIC: {}", m)
    })
}

impl Exec {
    pub fn open(dir: &Path, cfg: Cfg) -> Result<Exec, String> {
        rmrf(dir);
        std::fs::create_dir_all(dir).unwrap();
        let mut e = Exec { dir: dir.to_path_buf(), cfg, kv: None, h: None, model: Kv::new(), incarnation: 0 };
        e.reopen()?;
        Ok(e)
    }
    /// Open a directory as it is (recovery), without wiping it first.
    pub fn open_existing(dir: &Path, cfg: Cfg) -> Result<Exec, String> {
        let mut e = Exec { dir: dir.to_path_buf(), cfg, kv: None, h: None, model: Kv::new(), incarnation: 0 };
        e.reopen()?;
        Ok(e)
    }
    pub fn reopen(&mut self) -> Result<(), String> {
        self.h = None;
        self.kv = None;
        self.incarnation += 1;
        iohook::rec_mark(format!("incarnation:{}", self.incarnation));
        let c = self.cfg.build(&self.dir);
        let kv = catch(|| c.open())?.map_err(|e| format!("open: {}", e))?;
        self.h = Some(kv.get_handle());
        self.kv = Some(kv);
        Ok(())
    }
    pub fn h(&self) -> &Handle {
        self.h.as_ref().unwrap()
    }
    pub fn get(&self, k: u8) -> Result<Option<Vec<u8>>, String> {
        let h = self.h();
        // a get on an empty pool spins forever (single-threaded driver: nobody can return a reader)
        if h.verif_pool().0 == 0 {
            return Err("HANG: the reader pool is empty (a reader was lost by an earlier operation), get would spin forever".into());
        }
        catch(|| h.get(b(key_bytes(k))))?.map(|o| o.map(|v| v.to_vec())).map_err(|e| format!("Err: {}", e))
    }
    /// Apply one operation to the implementation and the model; returns (what the implementation
    /// returned, what the model says it must return).
    pub fn step(&mut self, op: Op) -> (String, String) {
        match op {
            Op::Set(k, v) => {
                let h = self.h();
                let r = catch(|| h.set(b(key_bytes(k)), b(val_bytes(v)))).map(|r| r.map_err(|e| e.to_string()));
                self.model.insert(key_bytes(k), val_bytes(v));
                (format!("{:?}", r), "Ok(Ok(()))".into())
            }
            Op::Del(k) => {
                let h = self.h();
                let r = catch(|| h.del(b(key_bytes(k)))).map(|r| r.map_err(|e| e.to_string()));
                let want = self.model.remove(&key_bytes(k)).is_some();
                (format!("{:?}", r), format!("Ok(Ok({}))", want))
            }
            Op::Merge => {
                let h = self.h();
                if std::env::var("VH_DEBUG_LOG").is_ok() {
                    eprintln!("BEFORE MERGE: select {:?} stats {:?} keydir {:?}", h.verif_fileids_to_merge(), h.verif_dump().stats, h.verif_dump().keydir);
                }
                let r = catch(|| h.verif_merge()).map(|r| r.map_err(|e| e.to_string()));
                (format!("{:?}", r), "Ok(Ok(()))".into())
            }
            Op::SetLen(k, n) => {
                let h = self.h();
                let v: Vec<u8> = (0..n as usize).map(|i| (i % 241) as u8).collect();
                let r = catch(|| h.set(b(key_bytes(k)), b(v.clone()))).map(|r| r.map_err(|e| e.to_string()));
                self.model.insert(key_bytes(k), v);
                (format!("{:?}", r), "Ok(Ok(()))".into())
            }
            Op::Sync => {
                let h = self.h();
                let r = catch(|| h.verif_sync()).map(|r| r.map_err(|e| e.to_string()));
                (format!("{:?}", r), "Ok(Ok(()))".into())
            }
            Op::Fill(n, g) => {
                let h = self.h.clone().unwrap();
                let mut out = "Ok(Ok(()))".to_string();
                for i in 0..n as usize {
                    let (k, v) = (bulk_key(i), bulk_val(g, i));
                    let r = catch(|| h.set(b(k.clone()), b(v.clone()))).map(|r| r.map_err(|e| e.to_string()));
                    self.model.insert(k, v);
                    if format!("{:?}", r) != "Ok(Ok(()))" {
                        out = format!("{:?} at key {}", r, i);
                        break;
                    }
                }
                (out, "Ok(Ok(()))".into())
            }
            Op::Drain(n, st) => {
                let h = self.h.clone().unwrap();
                let mut out = "Ok(Ok(()))".to_string();
                for i in (0..n as usize).step_by(st.max(1) as usize) {
                    let k = bulk_key(i);
                    let r = catch(|| h.del(b(k.clone()))).map(|r| r.map_err(|e| e.to_string()));
                    let want = self.model.remove(&k).is_some();
                    if format!("{:?}", r) != format!("Ok(Ok({}))", want) {
                        out = format!("{:?} at key {} (model: {})", r, i, want);
                        break;
                    }
                }
                (out, "Ok(Ok(()))".into())
            }
            Op::Reopen | Op::ReopenAs(_) => {
                if let Op::ReopenAs(t) = op {
                    self.cfg.thr = t;
                }
                let r: Result<Result<(), String>, String> = match self.reopen() {
                    Ok(()) => Ok(Ok(())),
                    Err(m) if m.starts_with("PANIC") => Err(m),
                    Err(m) => Ok(Err(m)),
                };
                (format!("{:?}", r), "Ok(Ok(()))".into())
            }
        }
    }
    pub fn close(&mut self) {
        self.h = None;
        self.kv = None;
    }
}

fn data_files(files: &BTreeMap<String, Vec<u8>>) -> BTreeMap<u64, &Vec<u8>> {
    files.iter().filter_map(|(n, b)| parse_name(n).and_then(|(id, d)| if d { Some((id, b)) } else { None })).collect()
}
fn hint_files(files: &BTreeMap<String, Vec<u8>>) -> BTreeMap<u64, &Vec<u8>> {
    files.iter().filter_map(|(n, b)| parse_name(n).and_then(|(id, d)| if !d { Some((id, b)) } else { None })).collect()
}

/// Canonical fingerprint of an implementation state (no timestamps, no paths).
pub fn fingerprint(cfg: &Cfg, dump: &Dump, files: &BTreeMap<String, Vec<u8>>) -> u64 {
    let mut s = Vec::with_capacity(256);
    s.extend_from_slice(format!("{:?}|{:?}|{:?}|{}|{}|{:?}|", cfg, dump.keydir.iter().map(|(k, f, p, l)| (fnv(k), *f, *p, *l)).collect::<Vec<_>>(), dump.stats, dump.active_fileid, dump.written_bytes, dump.readers).as_bytes());
    for (id, bytes) in data_files(files) {
        let (ents, torn) = model::decode_data(bytes);
        s.extend_from_slice(format!("D{}:{}:", id, torn).as_bytes());
        for e in ents {
            s.extend_from_slice(format!("{},{},{:x},{:?};", e.pos, e.len, fnv(&e.key), e.value.as_ref().map(|v| fnv(v))).as_bytes());
        }
    }
    for (id, bytes) in hint_files(files) {
        let (ents, torn) = model::decode_hint(bytes);
        s.extend_from_slice(format!("H{}:{}:", id, torn).as_bytes());
        for e in ents {
            s.extend_from_slice(format!("{},{},{:x};", e.pos, e.len, fnv(&e.key)).as_bytes());
        }
    }
    fnv(&s)
}

pub struct WordCase<'a> {
    pub prop: &'a str,
    pub sweep: &'a str,
    pub cfg: Cfg,
    pub word: &'a [Op],
    pub oracles: Oracles,
    pub keys: &'a [u8],
    pub trailing_reopens: usize,
    pub preload: &'a [Op],
}

impl<'a> WordCase<'a> {
    pub fn to_json(&self, step: Option<usize>) -> Value {
        json!({"engine": "seq", "sweep": self.sweep, "cfg": self.cfg.to_json(), "word": word_json(self.word), "word_text": show_word(self.word), "keys": self.keys, "trailing_reopens": self.trailing_reopens, "preload": word_json(self.preload), "failing_step": step})
    }
}

/// Outcome of executing one word: violations (class, message, failing step), observation digest.
pub struct WordResult {
    pub violations: Vec<(String, String, Option<usize>)>,
    pub digest: u64,
    pub states: Vec<u64>,
    pub steps: u64,
    pub merge_subsets: Vec<String>,
    pub hint_states: u64,
    pub multi_hint_states: u64,
    pub outcome: String,
}

fn read_all(e: &Exec, keys: &[u8]) -> Vec<(u8, Result<Option<Vec<u8>>, String>)> {
    keys.iter().map(|&k| (k, e.get(k))).collect()
}

fn check_reads(e: &Exec, keys: &[u8], what: &str, out: &mut Vec<(String, String, Option<usize>)>, step: usize) -> Vec<(u8, Result<Option<Vec<u8>>, String>)> {
    let reads = read_all(e, keys);
    for (k, r) in &reads {
        let want = e.model.get(&key_bytes(*k)).cloned();
        match r {
            Ok(got) if *got == want => {}
            Ok(got) => {
                let class = match (got, &want) {
                    (Some(_), None) => "read-resurrected",
                    (None, Some(_)) => "read-lost",
                    _ => "read-wrong-value",
                };
                out.push((format!("{}:{}", what, class), format!("get({}) = {:?}, model says {:?}", hex(&key_bytes(*k)), got.as_ref().map(|v| hex(v)), want.as_ref().map(|v| hex(v))), Some(step)));
            }
            Err(m) if m.starts_with("HANG") => out.push((format!("{}:get-hangs-reader-lost", what), format!("get({}) -> {}", hex(&key_bytes(*k)), m), Some(step))),
            Err(m) if m.starts_with("PANIC") => out.push((format!("{}:get-panic", what), format!("get({}) -> {}", hex(&key_bytes(*k)), m), Some(step))),
            Err(m) => out.push((format!("{}:get-error", what), format!("get({}) -> {}", hex(&key_bytes(*k)), m), Some(step))),
        }
    }
    reads
}

/// C19: counters vs. ground truth decoded from the files.
fn check_counters(dump: &Dump, files: &BTreeMap<String, Vec<u8>>, model: &Kv, out: &mut Vec<(String, String, Option<usize>)>, step: usize) {
    let dfs = data_files(files);
    // index must be exactly the model's keys, each pointing at an entry that decodes to the model's value
    let mut decoded: BTreeMap<u64, Vec<DataEntry>> = BTreeMap::new();
    for (id, bytes) in &dfs {
        let (ents, torn) = model::decode_data(bytes);
        if torn != 0 {
            out.push(("C19:undecodable-data-file".into(), format!("file {} has {} trailing bytes that are not an entry", id, torn), Some(step)));
        }
        decoded.insert(*id, ents);
    }
    let idx_keys: BTreeSet<&Vec<u8>> = dump.keydir.iter().map(|e| &e.0).collect();
    let model_keys: BTreeSet<&Vec<u8>> = model.keys().collect();
    if idx_keys != model_keys {
        out.push(("C19:index-keys-differ-from-model".into(), format!("index has {:?}, model has {:?}", idx_keys.iter().map(|k| hex(k)).collect::<Vec<_>>(), model_keys.iter().map(|k| hex(k)).collect::<Vec<_>>()), Some(step)));
    }
    let by_pos: std::collections::HashMap<(u64, u64), &DataEntry> = decoded.iter().flat_map(|(id, es)| es.iter().map(move |e| ((*id, e.pos), e))).collect();
    for (k, f, p, l) in &dump.keydir {
        let ent = by_pos.get(&(*f, *p)).copied().filter(|e| e.len == *l);
        match ent {
            Some(e) if &e.key == k && e.value.as_ref() == model.get(k) => {}
            Some(e) if &e.key == k && !model.contains_key(k) => {}
            other => out.push(("C19:index-entry-not-an-entry-boundary".into(), format!("index {} -> file {} pos {} len {} decodes to {:?}", hex(k), f, p, l, other.map(|e| (hex(&e.key), e.value.as_ref().map(|v| hex(v))))), Some(step))),
        }
    }
    let mut truth: BTreeMap<u64, (u64, u64, u64)> = BTreeMap::new();
    let live_set: std::collections::HashSet<(&Vec<u8>, u64, u64, u64)> = dump.keydir.iter().map(|(k, f, p, l)| (k, *f, *p, *l)).collect();
    for (id, ents) in &decoded {
        for e in ents {
            let live = live_set.contains(&(&e.key, *id, e.pos, e.len));
            let t = truth.entry(*id).or_default();
            if live {
                t.0 += 1
            } else {
                t.1 += 1;
                t.2 += e.len
            }
        }
    }
    let mut st: BTreeMap<u64, (u64, u64, u64)> = dump.stats.iter().map(|(f, l, d, b)| (*f, (*l, *d, *b))).collect();
    for (f, v) in &st {
        if !dfs.contains_key(f) && *v != (0, 0, 0) {
            out.push(("C19:record-for-missing-file".into(), format!("counters {:?} for file {} which is not on disk", v, f), Some(step)));
        }
    }
    st.retain(|_, v| *v != (0, 0, 0));
    truth.retain(|_, v| *v != (0, 0, 0));
    if st != truth {
        out.push(("C19:counters-differ-from-ground-truth".into(), format!("store says {:?} (file -> live, dead, dead_bytes); files say {:?}", st, truth), Some(step)));
    }
}

/// C14 directory part: nothing already written changes; no data file exceeds the limit by more
/// than one entry.
fn check_dir_invariants(cfg: &Cfg, before: &BTreeMap<String, Vec<u8>>, after: &BTreeMap<String, Vec<u8>>, out: &mut Vec<(String, String, Option<usize>)>, step: usize) {
    for (n, old) in before {
        if let Some(new) = after.get(n) {
            if new.len() < old.len() || &new[..old.len()] != &old[..] {
                out.push(("C14:written-bytes-modified".into(), format!("{}: {} bytes before, {} after, old content is not a prefix", n, old.len(), new.len()), Some(step)));
            }
        }
    }
    for (id, bytes) in data_files(after) {
        let (ents, torn) = model::decode_data(bytes);
        if torn == 0 {
            if let Some(last) = ents.last() {
                if bytes.len() as u64 - last.len > cfg.mfs {
                    out.push(("C14:file-exceeds-limit-by-more-than-one-entry".into(), format!("data file {} has {} bytes, last entry {} bytes, max_file_size {}", id, bytes.len(), last.len, cfg.mfs), Some(step)));
                }
            }
        }
    }
}

/// C14 trace part, evaluated over the recorded calls of a whole execution that started from an
/// empty directory (or from `initial_max_id` for recovered directories).
pub fn check_trace_invariants(log: &[Call], initial_max_id: Option<u64>, out: &mut Vec<(String, String, Option<usize>)>) {
    // highest id the directory has ever contained (data or hint file), and which members of the
    // newest id's pair this incarnation has created so far
    let mut max_id: Option<u64> = initial_max_id;
    let mut newest_pair: (bool, bool, u32) = (false, false, 0); // (data created, hint created, incarnation)
    let mut created_in: BTreeMap<String, u32> = BTreeMap::new();
    let mut inc = 0u32;
    // "created exclusively": O_APPEND is not demanded, that files only grow at their end is checked
    // on their contents (check_dir_invariants) and by the ban on pwrite / truncate / writable maps
    let want = libc::O_CREAT | libc::O_EXCL;
    for c in log {
        match c {
            Call::Mark(m) => {
                if let Some(n) = m.strip_prefix("incarnation:") {
                    inc = n.parse().unwrap_or(inc);
                }
            }
            Call::Forbidden(m) => out.push(("C14:forbidden-call".into(), m.clone(), None)),
            Call::Create { path, flags } => {
                created_in.insert(path.clone(), inc);
                if flags & want != want || flags & libc::O_TRUNC != 0 {
                    out.push(("C14:create-flags".into(), format!("{} created with flags {:#o} (want O_CREAT|O_EXCL, no O_TRUNC)", path, flags), None));
                }
                if let Some((id, is_data)) = parse_name(path) {
                    if max_id.map_or(true, |m| id > m) {
                        // a new id, above everything the directory has ever contained
                        max_id = Some(id);
                        newest_pair = (is_data, !is_data, inc);
                    } else if max_id == Some(id) && newest_pair.2 == inc && ((is_data && !newest_pair.0 && newest_pair.1) || (!is_data && !newest_pair.1 && newest_pair.0)) {
                        // the second member of the pair that this incarnation has just started
                        if is_data {
                            newest_pair.0 = true;
                        } else {
                            newest_pair.1 = true;
                        }
                    } else if is_data {
                        out.push(("C14:data-id-not-above-all-earlier-ids".into(), format!("{} created while the directory has already contained id {}", path, max_id.unwrap()), None));
                    } else {
                        out.push(("C14:hint-id".into(), format!("{} created while the directory has already contained id {} (a hint file may only share the id of the data file this incarnation has just created)", path, max_id.unwrap()), None));
                    }
                }
            }
            Call::Write { path, .. } => match created_in.get(path) {
                Some(i) if *i == inc => {}
                other => out.push(("C14:write-to-file-not-created-by-this-incarnation".into(), format!("write to {} (created in incarnation {:?}, now {})", path, other, inc), None)),
            },
            _ => {}
        }
    }
}

/// Total size of the data files of a store that was created empty and given exactly `pairs`.
fn fresh_store_size(dir: &Path, cfg: &Cfg, pairs: &Kv) -> Option<u64> {
    rmrf(dir);
    std::fs::create_dir_all(dir).ok()?;
    let r = catch(|| -> Option<u64> {
        let kv = cfg.build(dir).open().ok()?;
        let h = kv.get_handle();
        for (k, v) in pairs {
            h.set(b(k.clone()), b(v.clone())).ok()?;
        }
        drop(h);
        drop(kv);
        Some(data_files(&list_dir(dir)).values().map(|x| x.len() as u64).sum())
    })
    .ok()
    .flatten();
    rmrf(dir);
    r
}

/// Copy the directory twice (with / without hint files), open both with the real code and compare.
fn check_c12(e: &Exec, files: &BTreeMap<String, Vec<u8>>, keys: &[u8], out: &mut Vec<(String, String, Option<usize>)>, step: usize) {
    let a = e.dir.with_extension("withhint");
    let bdir = e.dir.with_extension("nohint");
    let mut res = vec![];
    for (d, strip) in [(&a, false), (&bdir, true)] {
        rmrf(d);
        std::fs::create_dir_all(d).unwrap();
        for (n, bytes) in files {
            if strip && n.ends_with(".hint") {
                continue;
            }
            std::fs::write(d.join(n), bytes).unwrap();
        }
        let c = e.cfg.build(d);
        let r = catch(|| -> Result<(Vec<Result<Option<Vec<u8>>, String>>, Dump), String> {
            let kv = c.open().map_err(|e| format!("open: {}", e))?;
            let h = kv.get_handle();
            let reads = keys.iter().map(|&k| h.get(b(key_bytes(k))).map(|o| o.map(|v| v.to_vec())).map_err(|e| e.to_string())).collect();
            Ok((reads, h.verif_dump()))
        })
        .and_then(|x| x);
        res.push(r);
        rmrf(d);
    }
    let want: Vec<Result<Option<Vec<u8>>, String>> = keys.iter().map(|k| Ok(e.model.get(&key_bytes(*k)).cloned())).collect();
    match (&res[0], &res[1]) {
        (Ok((ra, da)), Ok((rb, db))) => {
            if ra != rb {
                out.push(("C12:hint-vs-scan-reads-differ".into(), format!("with hints {:?}, without {:?}", show_reads(ra), show_reads(rb)), Some(step)));
            } else if *ra != want {
                out.push(("C12:both-recoveries-differ-from-model".into(), format!("both read {:?}, model {:?}", show_reads(ra), show_reads(&want)), Some(step)));
            }
            let ka: Vec<_> = da.keydir.iter().map(|x| (&x.0, x.1, x.2, x.3)).collect();
            let kb: Vec<_> = db.keydir.iter().map(|x| (&x.0, x.1, x.2, x.3)).collect();
            if ka != kb && ka.len() + kb.len() > 40 {
                // (large stores: the entries only one of the two has, the first few of them)
                let sa: std::collections::BTreeSet<_> = ka.iter().collect();
                let sb: std::collections::BTreeSet<_> = kb.iter().collect();
                let only_a: Vec<_> = sa.difference(&sb).take(3).map(|x| (hex(x.0), x.1, x.2, x.3)).collect();
                let only_b: Vec<_> = sb.difference(&sa).take(3).map(|x| (hex(x.0), x.1, x.2, x.3)).collect();
                out.push(("C12:hint-vs-scan-index-differs".into(), format!("{} entries with hints, {} without; only with hints (first 3): {:?}; only without: {:?}", ka.len(), kb.len(), only_a, only_b), Some(step)));
            } else if ka != kb {
                out.push(("C12:hint-vs-scan-index-differs".into(), format!("with hints {:?}, without {:?}", da.keydir.iter().map(|x| (hex(&x.0), x.1, x.2, x.3)).collect::<Vec<_>>(), db.keydir.iter().map(|x| (hex(&x.0), x.1, x.2, x.3)).collect::<Vec<_>>()), Some(step)));
            }
        }
        (ra, rb) => out.push(("C12:recovery-failed".into(), format!("with hints: {:?}; without: {:?}", ra.as_ref().map(|_| "ok").map_err(|e| e.clone()), rb.as_ref().map(|_| "ok").map_err(|e| e.clone())), Some(step))),
    }
}
fn show_reads(r: &[Result<Option<Vec<u8>>, String>]) -> Vec<String> {
    r.iter().map(|x| match x {
        Ok(Some(v)) => hex(v),
        Ok(None) => "nil".into(),
        Err(e) => format!("ERR {}", e),
    }).collect()
}

pub fn run_word(case: &WordCase, dir: &Path) -> WordResult {
    let case_cfg = case.cfg;
    let word = case.word.to_vec();
    let keys = case.keys.to_vec();
    let oracles = case.oracles;
    let trailing = case.trailing_reopens;
    let prop = case.prop.to_string();
    let preload = case.preload.to_vec();
    let dir = dir.to_path_buf();
    // every execution opens the store on a fresh thread so that hash seeds are a function of cfg.seed
    std::thread::spawn(move || run_word_here(&prop, case_cfg, &word, &keys, oracles, trailing, &preload, &dir)).join().expect("word thread")
}

fn run_word_here(prop: &str, cfg: Cfg, word: &[Op], keys: &[u8], o: Oracles, trailing: usize, preload: &[Op], dir: &Path) -> WordResult {
    iohook::set_seed(Some(cfg.seed));
    iohook::wall_clock_mode(cfg.clock % 10);
    let root = dir.to_string_lossy().to_string();
    rmrf(dir);
    std::fs::create_dir_all(dir).unwrap();
    iohook::rec_start(&root);
    let mut viol: Vec<(String, String, Option<usize>)> = vec![];
    let mut res = WordResult { violations: vec![], digest: 0, states: vec![], steps: 0, merge_subsets: vec![], hint_states: 0, multi_hint_states: 0, outcome: String::new() };
    let mut dig: Vec<u8> = vec![];
    let mut e = match Exec::open(dir, cfg) {
        Ok(e) => e,
        Err(m) => {
            res.violations.push((format!("{}:open-failed", prop), m, Some(0)));
            iohook::rec_stop();
            return res;
        }
    };
    for op in preload {
        let (got, want) = e.step(*op);
        if got != want {
            res.violations.push((format!("{}:preload-failed", prop), format!("{} returned {}", op.show(), got), Some(0)));
            iohook::rec_stop();
            return res;
        }
    }
    let bulk_n: usize = preload.iter().chain(word.iter()).map(|o| if let Op::Fill(n, _) | Op::Drain(n, _) = o { *n as usize } else { 0 }).max().unwrap_or(0);
    let mut before = list_dir(dir);
    let mut outcome = vec![];
    'steps: for (i, op) in word.iter().enumerate() {
        // pre-merge observations
        let mut pre_sizes = 0u64;
        let mut selected: Vec<u64> = vec![];
        // long structured histories are observed in full at merges, reopens, every 16th step and at
        // the end; in between only the return value and the key just touched are checked
        let long = word.len() > 40;
        let observe = !long || matches!(op, Op::Merge | Op::Reopen | Op::ReopenAs(_)) || i % 16 == 15 || i + 1 == word.len();
        if long && *op == Op::Merge {
            before = list_dir(dir);
        }
        if *op == Op::Merge {
            pre_sizes = data_files(&before).values().map(|b| b.len() as u64).sum();
            if let Ok(Ok(ids)) = catch(|| e.h().verif_fileids_to_merge()) {
                let all: Vec<u64> = data_files(&before).keys().cloned().collect();
                res.merge_subsets.push(format!("{}:{:?}/{:?}", e.cfg.thr.name(), ids, all));
                selected = ids;
            }
        }
        let (got, want) = e.step(*op);
        res.steps += 1;
        dig.extend_from_slice(got.as_bytes());
        if got != want {
            let class = if got.contains("PANIC") {
                "op-panic"
            } else if got.contains("Err(") {
                "op-error"
            } else {
                "op-wrong-return"
            };
            if o.kv || class != "op-wrong-return" {
                viol.push((format!("{}:{}", prop, class), format!("{} returned {}, model says {}", op.show(), got, want), Some(i)));
            }
            if e.h.is_none() {
                break 'steps;
            }
        }
        if !long {
            outcome.push(got.replace("Ok(Ok(", "").replace("))", ""));
        }
        if !observe {
            if let Op::Set(k, _) | Op::Del(k) | Op::SetLen(k, _) = op {
                if o.kv {
                    check_reads(&e, &[*k], prop, &mut viol, i);
                }
            }
            if !viol.is_empty() && viol.len() > 6 {
                break 'steps;
            }
            continue;
        }
        let files = list_dir(dir);
        let dump = match catch(|| e.h().verif_dump()) {
            Ok(d) => d,
            Err(m) => {
                viol.push((format!("{}:dump-panic", prop), m, Some(i)));
                break 'steps;
            }
        };
        let reads = if o.kv { check_reads(&e, keys, prop, &mut viol, i) } else { read_all(&e, keys) };
        if o.kv && bulk_n > 0 && viol.len() < 6 {
            let h = e.h.clone().unwrap();
            let mut bad = 0;
            for j in 0..bulk_n {
                let k = bulk_key(j);
                let want = e.model.get(&k).cloned();
                let got = if h.verif_pool().0 == 0 { Err("HANG: reader pool empty".to_string()) } else { catch(|| h.get(b(k.clone()))).and_then(|r| r.map(|o| o.map(|v| v.to_vec())).map_err(|e| format!("Err: {}", e))) };
                if got.as_ref().ok() != Some(&want) {
                    bad += 1;
                    if bad == 1 {
                        viol.push((format!("{}:{}", prop, if got.is_err() { "get-error" } else { "wrong-read" }), format!("get({}) = {:?}, model {:?} (key {} of {})", hex(&k), got.as_ref().map(|o| o.as_ref().map(|v| hex(v))), want.as_ref().map(|v| hex(v)), j, bulk_n), Some(i)));
                    }
                }
            }
            if bad > 1 {
                viol.push((format!("{}:wrong-read", prop), format!("{} of {} bulk keys read wrongly after this step", bad, bulk_n), Some(i)));
            }
        }
        for (k, r) in &reads {
            dig.push(*k);
            dig.extend_from_slice(format!("{:?}", r.as_ref().map(|o| o.as_ref().map(|v| fnv(v)))).as_bytes());
        }
        let fp = fingerprint(&cfg, &dump, &files);
        dig.extend_from_slice(&fp.to_le_bytes());
        res.states.push(fp);
        let nh = hint_files(&files).values().filter(|b| !b.is_empty()).count();
        if nh >= 1 {
            res.hint_states += 1;
        }
        if nh >= 2 {
            res.multi_hint_states += 1;
        }
        if o.c19 {
            check_counters(&dump, &files, &e.model, &mut viol, i);
        }
        if o.c14 {
            check_dir_invariants(&cfg, &before, &files, &mut viol, i);
        }
        if o.c13 && *op == Op::Merge && got == want {
            let after: u64 = data_files(&files).values().map(|b| b.len() as u64).sum();
            if after > pre_sizes {
                viol.push(("C13:merge-grew-the-store".into(), format!("data files total {} bytes before, {} after", pre_sizes, after), Some(i)));
            }
            for id in &selected {
                for n in [format!("{}.bitcask.data", id), format!("{}.bitcask.hint", id)] {
                    if files.contains_key(&n) {
                        viol.push(("C13:selected-file-not-removed".into(), format!("{} was selected for merging and still exists", n), Some(i)));
                    }
                }
            }
            // "when every non-empty data file is eligible": under ALL thresholds, and whenever the
            // selection (asked before the merge) contained every non-empty data file anyway
            let all_selected = {
                let nonempty: Vec<u64> = data_files(&before).iter().filter(|(_, b)| !b.is_empty()).map(|(id, _)| *id).collect();
                !nonempty.is_empty() && nonempty.iter().all(|id| selected.contains(id))
            };
            if e.cfg.thr == Thr::All || all_selected {
                // "a fresh store holding only the live pairs", built with the real code (the size an
                // independent model of the file format gives is used only if that fails)
                let minimal: u64 = fresh_store_size(&e.dir.with_extension("fresh"), &e.cfg, &e.model).unwrap_or_else(|| e.model.iter().map(|(k, v)| model::entry_size(k, v)).sum());
                if after != minimal {
                    viol.push(("C13:not-minimal-after-full-merge".into(), format!("data files total {} bytes after a merge of every file, live pairs need {}", after, minimal), Some(i)));
                }
                // each live key stored exactly once, nothing else kept
                let mut n_entries = 0;
                for (_, bytes) in data_files(&files) {
                    n_entries += model::decode_data(bytes).0.len();
                }
                if n_entries != e.model.len() {
                    viol.push(("C13:not-minimal-after-full-merge".into(), format!("{} entries on disk for {} live keys", n_entries, e.model.len()), Some(i)));
                }
            }
            // idempotence: a second merge changes neither sizes nor reads nor the live multiset
            let live_before: BTreeSet<(Vec<u8>, Option<Vec<u8>>)> = data_files(&files).values().flat_map(|b| model::decode_data(b).0).map(|en| (en.key, en.value)).collect();
            let r2 = catch(|| e.h().verif_merge()).map(|r| r.map_err(|e| e.to_string()));
            res.steps += 1;
            if format!("{:?}", r2) != "Ok(Ok(()))" {
                viol.push(("C13:second-merge-failed".into(), format!("{:?}", r2), Some(i)));
            } else {
                let files2 = list_dir(dir);
                let after2: u64 = data_files(&files2).values().map(|b| b.len() as u64).sum();
                let live_after: BTreeSet<(Vec<u8>, Option<Vec<u8>>)> = data_files(&files2).values().flat_map(|b| model::decode_data(b).0).map(|en| (en.key, en.value)).collect();
                if after2 != after && e.cfg.thr == Thr::All {
                    viol.push(("C13:second-merge-changed-size".into(), format!("{} bytes after the first merge, {} after the second", after, after2), Some(i)));
                }
                if after2 > after {
                    viol.push(("C13:merge-grew-the-store".into(), format!("second merge: {} bytes before, {} after", after, after2), Some(i)));
                }
                if e.cfg.thr == Thr::All && live_before != live_after {
                    viol.push(("C13:second-merge-changed-contents".into(), "multiset of entries on disk differs".into(), Some(i)));
                }
                check_reads(&e, keys, "C13", &mut viol, i);
            }
            before = list_dir(dir);
        } else {
            before = files.clone();
        }
        if o.c12 {
            let files_now = if o.c13 && *op == Op::Merge { list_dir(dir) } else { files };
            check_c12(&e, &files_now, keys, &mut viol, i);
        }
        if !viol.is_empty() && viol.len() > 6 {
            break 'steps;
        }
    }
    if o.reopen_stable && e.h.is_some() && viol.is_empty() {
        let base = catch(|| e.h().verif_dump()).ok();
        let base_files = list_dir(dir);
        let mut prev_files = base_files.clone();
        for t in 0..trailing {
            if let Err(m) = e.reopen() {
                viol.push((format!("{}:reopen-failed", prop), m, Some(word.len() + t)));
                break;
            }
            res.steps += 1;
            check_reads(&e, keys, prop, &mut viol, word.len() + t);
            // a delete of a key deleted before the restart must report "absent": checked through the index
            let d = catch(|| e.h().verif_dump()).ok();
            let files = list_dir(dir);
            if let (Some(b0), Some(d1)) = (&base, &d) {
                let ent = |d: &Dump, f: &BTreeMap<String, Vec<u8>>| -> Vec<(Vec<u8>, Option<Vec<u8>>)> {
                    d.keydir.iter().map(|(k, id, p, l)| {
                        let v = f.get(&format!("{}.bitcask.data", id)).and_then(|bytes| bytes.get(*p as usize..(*p + *l) as usize)).and_then(|s| model::decode_data(s).0.into_iter().next()).and_then(|e| e.value);
                        (k.clone(), v)
                    }).collect()
                };
                if ent(b0, &base_files) != ent(d1, &files) {
                    viol.push((format!("{}:index-changed-by-reopen", prop), format!("reopen #{} changed the index", t + 1), Some(word.len() + t)));
                }
            }
            // "changes nothing": no file with content appears, disappears or changes (the pinned code
            // adds one empty data file per open; empty files coming or going carry no information)
            let new: Vec<&String> = files.keys().filter(|n| !prev_files.contains_key(*n) && !files[*n].is_empty()).collect();
            let gone: Vec<&String> = prev_files.keys().filter(|n| !files.contains_key(*n) && !prev_files[*n].is_empty()).collect();
            let changed: Vec<&String> = files.iter().filter(|(n, b)| prev_files.get(*n).map_or(false, |o| o != *b)).map(|(n, _)| n).collect();
            let ok = gone.is_empty() && changed.is_empty() && new.is_empty();
            if !ok {
                viol.push((format!("{}:reopen-changed-directory", prop), format!("reopen #{}: new {:?}, gone {:?}, changed {:?}", t + 1, new, gone, changed), Some(word.len() + t)));
            }
            if o.c14 {
                check_dir_invariants(&cfg, &prev_files, &files, &mut viol, word.len() + t);
            }
            prev_files = files;
        }
    }
    e.close();
    let log = iohook::rec_stop();
    if o.c14 {
        check_trace_invariants(&log, None, &mut viol);
    }
    iohook::set_seed(None);
    res.digest = fnv(&dig);
    res.outcome = outcome.join(",");
    res.violations = viol;
    res
}

// ---------------------------------------------------------------------------------------------
// seeds realising both merge orders of the two main keys

/// Find hash seeds under which a merge of {a, b} copies a before b, and b before a.
pub fn probe_seeds(dir: &Path) -> Vec<u64> {
    let mut ab = None;
    let mut ba = None;
    for seed in 1..200u64 {
        let d = dir.to_path_buf();
        let first = std::thread::spawn(move || {
            iohook::set_seed(Some(seed));
            let cfg = Cfg::new(MFS_BIG, Thr::All, seed);
            let mut e = Exec::open(&d, cfg).ok()?;
            e.step(Op::Set(0, 0));
            e.step(Op::Set(1, 0));
            e.step(Op::Merge);
            let dump = e.h().verif_dump();
            let pa = dump.keydir.iter().find(|x| x.0 == key_bytes(0))?.2;
            let pb = dump.keydir.iter().find(|x| x.0 == key_bytes(1))?.2;
            e.close();
            Some(pa < pb)
        })
        .join()
        .ok()
        .flatten();
        match first {
            Some(true) if ab.is_none() => ab = Some(seed),
            Some(false) if ba.is_none() => ba = Some(seed),
            _ => {}
        }
        if ab.is_some() && ba.is_some() {
            break;
        }
    }
    rmrf(dir);
    let mut v = vec![];
    if let Some(s) = ab {
        v.push(s)
    }
    if let Some(s) = ba {
        v.push(s)
    }
    if v.is_empty() {
        v.push(1);
    }
    v
}

// ---------------------------------------------------------------------------------------------
// plans per property

const SET_A1: Op = Op::Set(0, 0);
const SET_A22: Op = Op::Set(0, 1);
const SET_B1: Op = Op::Set(1, 0);
const SET_BBIG: Op = Op::Set(1, 4);
const DEL_A: Op = Op::Del(0);
const DEL_B: Op = Op::Del(1);

/// The core grid: file sizes x threshold sets; both merge orders (hash seeds) where the order of
/// copying can matter (a merge that selects several files: ALL and DEAD), one seed elsewhere.
fn core_grid(seeds: &[u64], thrs: &[Thr], mfss: &[u64]) -> Vec<Cfg> {
    let mut v = vec![];
    for &mfs in mfss {
        for &thr in thrs {
            for (i, &s) in seeds.iter().enumerate() {
                if i > 0 && !matches!(thr, Thr::All | Thr::Dead) {
                    continue;
                }
                v.push(Cfg::new(mfs, thr, s));
            }
        }
    }
    v
}
fn cache_conc_grid(seed: u64, thr: Thr) -> Vec<Cfg> {
    let mut v = vec![];
    for mfs in [0u64, 60] {
        for cache in [0usize, 1, 256] {
            for conc in [0usize, 1, 3] {
                if cache == 1 && conc == 1 {
                    continue;
                }
                v.push(Cfg { mfs, thr, cache, conc, seed, sync_always: false, clock: 0 });
            }
        }
    }
    v
}

pub fn plan(prop: &str, tier: Tier, seeds: &[u64]) -> Vec<Sweep> {
    let kv = Oracles { kv: true, ..Default::default() };
    let main_keys = vec![0u8, 1, NEVER_KEY];
    let all_thr = [Thr::All, Thr::Dead, Thr::Size27, Thr::Size100, Thr::Frag, Thr::None];
    // 27: a limit that one small entry fills exactly
    let mfss = [0u64, 27, 60, MFS_BIG];
    let full = vec![SET_A1, SET_A22, SET_B1, DEL_A, DEL_B, Op::Merge, Op::Reopen, SET_BBIG];
    let wide_keys: Vec<u8> = vec![0, 2, 3, 4, NEVER_KEY];
    let wide_ops = |with_merge: bool, with_reopen: bool| -> Vec<Op> {
        let mut v = vec![];
        for k in [0u8, 2, 3, 4] {
            for val in [0u8, 1, 2, 3, 4, 5] {
                v.push(Op::Set(k, val));
            }
        }
        v.push(Op::Set(0, 7));
        v.push(Op::Set(2, 8));
        for k in [0u8, 2, 3, 4] {
            v.push(Op::Del(k));
        }
        if with_merge {
            v.push(Op::Merge);
        }
        if with_reopen {
            v.push(Op::Reopen);
        }
        v
    };
    // quick tier of the three large word spaces: depth 5 on the configurations where rollover and
    // subset selection interact (file sizes 0 and 60; ALL, DEAD, SIZE27), depth 4 on the rest
    let hot = core_grid(seeds, &[Thr::All, Thr::Dead, Thr::Size27, Thr::Size100], &[0, 60]);
    let mut rest = core_grid(seeds, &all_thr, &mfss);
    rest.retain(|c| !hot.contains(c));
    let mut sweeps = vec![];
    let mut deep = |name: &str, alphabet: Vec<Op>, dq: usize, dt: usize, cfgs: Vec<Cfg>, oracles: Oracles, trailing: usize| {
        sweeps.push(Sweep { name: format!("{}-depth{}", name, dq), alphabet: alphabet.clone(), depth: dq, cfgs: cfgs.clone(), oracles, keys: main_keys.clone(), trailing_reopens: trailing, preload: vec![], words: vec![] });
        if tier == Tier::Thorough && dt > dq {
            sweeps.push(Sweep { name: format!("{}-depth{}", name, dt), alphabet, depth: dt, cfgs, oracles, keys: main_keys.clone(), trailing_reopens: trailing, preload: vec![], words: vec![] });
        }
    };
    // SCALE: structured long histories over MANY keys (the exhaustive words have two). Families:
    // n distinct keys are set; every p-th is overwritten; every q-th is deleted; merges and reopens
    // between the phases; optionally every 5th value is 9000 bytes; optionally one key is
    // overwritten m times. Not sampled: every combination of the listed parameters.
    let scale_words = |ns: &[usize]| -> Vec<Vec<Op>> {
        let key = |i: usize| (20 + i) as u8; // key_bytes(20..) = two-byte keys 'k' + byte
        let mut out = vec![];
        for &n in ns {
            for big in [false, true] {
                for p in [0usize, 1, 2, 3] {
                    for q in [0usize, 2, 3] {
                        for mid_merge in [false, true] {
                            let mut w = vec![];
                            for i in 0..n {
                                w.push(Op::Set(key(i), if big && i % 5 == 4 { 4 } else { 0 }));
                            }
                            if mid_merge {
                                w.push(Op::Merge);
                            }
                            if p > 0 {
                                for i in (0..n).filter(|i| i % p == 0) {
                                    w.push(Op::Set(key(i), 1));
                                }
                            }
                            if q > 0 {
                                for i in (0..n).filter(|i| i % q == 1) {
                                    w.push(Op::Del(key(i)));
                                }
                            }
                            w.push(Op::Merge);
                            w.push(Op::Reopen);
                            if q > 0 {
                                // delete again (now absent), re-set a few
                                for i in (0..n).filter(|i| i % q == 1).take(3) {
                                    w.push(Op::Del(key(i)));
                                    w.push(Op::Set(key(i), 6));
                                }
                            }
                            w.push(Op::Merge);
                            w.push(Op::Reopen);
                            w.push(Op::Reopen);
                            w.push(Op::Merge);
                            out.push(w);
                        }
                    }
                }
            }
        }
        // one key overwritten m times, among a few others
        for m in [9usize, 10, 11, 99, 100, 101, 300] {
            for tail in [vec![Op::Merge], vec![Op::Reopen, Op::Merge], vec![Op::Merge, Op::Reopen, Op::Merge]] {
                let mut w = vec![Op::Set(key(0), 0), Op::Set(key(1), 0)];
                for j in 0..m {
                    w.push(Op::Set(key(0), if j % 2 == 0 { 1 } else { 0 }));
                }
                w.push(Op::Del(key(1)));
                w.extend(tail.clone());
                w.push(Op::Set(key(2), 0));
                w.push(Op::Merge);
                w.push(Op::Reopen);
                out.push(w);
            }
        }
        out
    };
    let scale = |sweeps: &mut Vec<Sweep>, oracles: Oracles| {
        let ns: Vec<usize> = if tier == Tier::Quick { vec![3, 10, 11, 33, 100] } else { vec![3, 4, 9, 10, 11, 16, 17, 32, 33, 64, 65, 100, 129, 200] };
        let words = scale_words(&ns);
        let nmax = *ns.iter().max().unwrap();
        let keys: Vec<u8> = (0..nmax).map(|i| (20 + i) as u8).chain([NEVER_KEY]).collect();
        let mut cfgs = vec![];
        for mfs in [0u64, 60, 1000, MFS_BIG] {
            for thr in [Thr::All, Thr::Dead, Thr::Frag, Thr::Size100] {
                for (cache, conc) in [(1usize, 1usize), (0, 2), (4, 2)] {
                    if tier == Tier::Quick && !((cache, conc) == (4, 2) || (mfs == 0 && thr == Thr::All)) {
                        continue;
                    }
                    cfgs.push(Cfg { mfs, thr, cache, conc, seed: seeds[0], sync_always: false, clock: 0 });
                }
            }
        }
        // and with the wall clock running backwards (partial merges under SIZE100 / FRAG leave an older
        // file whose entries carry LATER timestamps than the copies in the hinted merge output)
        for (mfs, thr) in [(0u64, Thr::Size100), (60, Thr::Size100), (0, Thr::Frag), (60, Thr::All), (1000, Thr::Dead)] {
            cfgs.push(Cfg { mfs, thr, cache: 4, conc: 2, seed: seeds[0], sync_always: false, clock: 1 });
        }
        sweeps.push(Sweep { name: "scale".into(), alphabet: vec![], depth: 0, cfgs, oracles, keys, trailing_reopens: 0, preload: vec![], words });
    };
    // SIZES: one entry of every length from 8 126 to 8 226 bytes (and 16 366 .. 16 405) among small ones
    let sizes = |sweeps: &mut Vec<Sweep>, oracles: Oracles| {
        let mut words = vec![];
        for v in (100u8..=200).chain(201..=240) {
            words.push(vec![Op::Set(0, v), Op::Set(1, 0), Op::Merge, Op::Set(1, v), Op::Reopen, Op::Merge]);
            words.push(vec![Op::Set(1, 0), Op::Set(0, v), Op::Set(1, 1), Op::Merge, Op::Reopen]);
        }
        // and every value length from 2^k - 60 to 2^k + 10 for k = 12 .. 17 (an entry is 25 + key + value)
        for k in 12u32..=17 {
            let step = if tier == Tier::Quick { 1 } else { 1 };
            for len in ((1u32 << k) - 60..=(1u32 << k) + 10).step_by(step) {
                words.push(vec![Op::SetLen(0, len), Op::Set(1, 0), Op::Merge, Op::SetLen(1, len), Op::Reopen, Op::Merge]);
                if tier == Tier::Thorough {
                    words.push(vec![Op::Set(1, 0), Op::SetLen(0, len), Op::Set(1, 1), Op::Merge, Op::Reopen]);
                }
            }
        }
        let mut cfgs = vec![];
        for mfs in [0u64, 9000, MFS_BIG] {
            for (cache, conc) in [(1usize, 1usize), (0, 2)] {
                if tier == Tier::Quick && mfs == 9000 && cache == 0 {
                    continue;
                }
                cfgs.push(Cfg { mfs, thr: Thr::All, cache, conc, seed: seeds[0], sync_always: false, clock: 0 });
            }
        }
        sweeps.push(Sweep { name: "sizes".into(), alphabet: vec![], depth: 0, cfgs, oracles, keys: main_keys.clone(), trailing_reopens: 0, preload: vec![], words });
        // VOLUME: tens of MiB in a few files (constants like "64 MiB per pass" are not reached otherwise)
        let m = 1u32 << 20;
        let vol_words = vec![
            vec![Op::SetLen(0, 40 * m), Op::Set(1, 0), Op::SetLen(5, 30 * m), Op::Del(1), Op::Merge, Op::Reopen, Op::Merge],
            vec![Op::SetLen(0, 70 * m), Op::Set(1, 0), Op::Del(1), Op::SetLen(0, 1), Op::Merge, Op::Reopen, Op::Set(1, 1), Op::Merge],
            vec![Op::Set(1, 0), Op::SetLen(0, 20 * m), Op::SetLen(5, 20 * m), Op::SetLen(0, 20 * m), Op::SetLen(5, 20 * m), Op::Del(1), Op::Merge, Op::Reopen],
        ];
        let vol_cfgs = vec![Cfg { mfs: 16 << 20, thr: Thr::All, cache: 1, conc: 1, seed: seeds[0], sync_always: false, clock: 0 }, Cfg { mfs: MFS_BIG, thr: Thr::Dead, cache: 1, conc: 1, seed: seeds[0], sync_always: false, clock: 0 }];
        sweeps.push(Sweep { name: "volume".into(), alphabet: vec![], depth: 0, cfgs: vol_cfgs, oracles, keys: vec![0, 1, 5, NEVER_KEY], trailing_reopens: 0, preload: vec![], words: vol_words });
    };
    // COUNT thresholds: thousands of keys in one store (a merge pass over > 4096 entries, > 65 536
    // entries, > 256 files, every DashMap shard holding many keys)
    let bulk = |sweeps: &mut Vec<Sweep>, oracles: Oracles| {
        // the per-state oracles other than reads are quadratic in the number of entries: smaller counts there
        let heavy = oracles.c19 || oracles.c12 || oracles.c13;
        let ns: Vec<u32> = if heavy { if tier == Tier::Quick { vec![257, 4100] } else { vec![255, 256, 257, 1000, 4095, 4096, 4097, 10_000, 66_000] } } else if tier == Tier::Quick { vec![257, 4097, 70_000] } else { vec![255, 256, 257, 1000, 4095, 4096, 4097, 10_000, 65_535, 65_536, 65_537, 140_000] };
        let mut words = vec![];
        let nmax = *ns.iter().max().unwrap();
        for &n in &ns {
            words.push(vec![Op::Fill(n, 1), Op::Merge, Op::Reopen, Op::Merge]);
            // the largest count runs the first family only in the quick tier (a worker is busy for
            // seconds with one such word)
            if tier == Tier::Quick && n == nmax && n > 1000 {
                continue;
            }
            words.push(vec![Op::Fill(n, 1), Op::Drain(n, 2), Op::Merge, Op::Reopen, Op::Fill(n / 2, 2), Op::Merge]);
            words.push(vec![Op::Fill(n, 1), Op::Fill(n, 2), Op::Merge, Op::Merge, Op::Reopen, Op::Drain(n, 3), Op::Merge, Op::Reopen]);
        }
        let mut cfgs = vec![];
        for mfs in [1000u64, 100_000, MFS_BIG] {
            for thr in [Thr::All, Thr::Dead] {
                for (cache, conc) in [(1usize, 1usize), (0, 2)] {
                    if tier == Tier::Quick && (cache, conc) == (0, 2) && mfs != 1000 {
                        continue;
                    }
                    cfgs.push(Cfg { mfs, thr, cache, conc, seed: seeds[0], sync_always: false, clock: 0 });
                }
            }
        }
        sweeps.push(Sweep { name: "bulk".into(), alphabet: vec![], depth: 0, cfgs, oracles, keys: vec![NEVER_KEY], trailing_reopens: 0, preload: vec![], words: words.clone() });
        // the same with ONE ENTRY PER FILE (file size limit 0): a merge pass over thousands of files
        let few: Vec<Vec<Op>> = words.into_iter().filter(|w| w.iter().all(|o| !matches!(o, Op::Fill(n, _) | Op::Drain(n, _) if *n > 5000))).collect();
        let cfgs0: Vec<Cfg> = [Thr::All, Thr::Dead].iter().map(|&thr| Cfg { mfs: 0, thr, cache: 1, conc: 1, seed: seeds[0], sync_always: false, clock: 0 }).collect();
        sweeps.push(Sweep { name: "bulk-one-entry-per-file".into(), alphabet: vec![], depth: 0, cfgs: cfgs0, oracles, keys: vec![NEVER_KEY], trailing_reopens: 0, preload: vec![], words: few });
    };
    // More than 2^20 entries in ONE hint file / one merge pass / one start-up scan (a single word,
    // a worker is busy with it for half a minute)
    let mega = |sweeps: &mut Vec<Sweep>, oracles: Oracles| {
        let mut words = vec![vec![Op::Fill((1 << 20) + 2, 1), Op::Merge, Op::Reopen]];
        if tier == Tier::Thorough {
            words.push(vec![Op::Fill((2 << 20) + 3, 1), Op::Merge, Op::Reopen]);
        }
        let cfgs = vec![Cfg { mfs: MFS_BIG, thr: Thr::All, cache: 1, conc: 1, seed: seeds[0], sync_always: false, clock: 0 }];
        sweeps.push(Sweep { name: "mega".into(), alphabet: vec![], depth: 0, cfgs, oracles, keys: vec![NEVER_KEY], trailing_reopens: 0, preload: vec![], words });
    };
    // Non-initial states: the store is first filled and fully merged under ALL thresholds (its data
    // now sits in hinted merge outputs), then re-opened with the thresholds under test. Two merges
    // with DIFFERENT selections are far beyond the word depth otherwise.
    let after_merge = |sweeps: &mut Vec<Sweep>, depth: usize, oracles: Oracles| {
        let preloads: Vec<(&str, Vec<Op>)> = vec![
            ("ab", vec![SET_A1, SET_B1, Op::Merge]),
            ("aB", vec![SET_A1, SET_BBIG, Op::Merge]),
            ("a|b", vec![SET_A1, Op::Merge, SET_B1, Op::Merge]),
        ];
        for (pn, pre) in preloads {
            for thr in [Thr::Dead, Thr::Size27, Thr::Size100, Thr::Frag, Thr::None] {
                let mut preload = pre.clone();
                preload.push(Op::ReopenAs(thr));
                sweeps.push(Sweep { name: format!("after-merge[{}]->{}-depth{}", pn, thr.name(), depth), alphabet: full.clone(), depth, cfgs: core_grid(&seeds[..1], &[Thr::All], &[0, MFS_BIG]), oracles, keys: main_keys.clone(), trailing_reopens: 0, preload, words: vec![] });
            }
        }
    };
    // The wall clock is an environment answer (every entry carries a timestamp read from it): the
    // same words with a clock that runs BACKWARDS (each reading an hour before the previous one)
    // and with one that stands still. Which entry is current is decided by file and position.
    let with_clocks = |cfgs: Vec<Cfg>| -> Vec<Cfg> { cfgs.into_iter().flat_map(|c| [Cfg { clock: 1, ..c }, Cfg { clock: 2, ..c }]).collect() };
    match prop {
        "C01" => {
            let alpha = vec![SET_A1, SET_A22, SET_B1, SET_BBIG, DEL_A, DEL_B, Op::Merge];
            deep("core", alpha.clone(), 5, 7, core_grid(seeds, &all_thr, &mfss), kv, 0);
            sweeps.push(Sweep { name: "cache-conc".into(), alphabet: alpha, depth: tier.pick(4, 5), cfgs: cache_conc_grid(seeds[0], Thr::All), oracles: kv, keys: main_keys.clone(), trailing_reopens: 0, preload: vec![], words: vec![] });
            sweeps.push(Sweep { name: "wide".into(), alphabet: wide_ops(true, false), depth: tier.pick(2, 3), cfgs: core_grid(&seeds[..1], &[Thr::All, Thr::Dead], &[0, 60, MFS_BIG]), oracles: kv, keys: wide_keys.clone(), trailing_reopens: 0, preload: vec![], words: vec![] });
            // the reads after every step warm the reader's file cache, and a warm reader keeps
            // answering from a file that a merge has removed: the same sweep with NO reader cache
            // (every read opens its file) and two pooled readers
            let cold: Vec<Cfg> = core_grid(&seeds[..1], &[Thr::All, Thr::Dead], &[0, 60, MFS_BIG]).into_iter().map(|c| Cfg { cache: 0, conc: 2, ..c }).collect();
            sweeps.push(Sweep { name: "wide-cold-readers".into(), alphabet: wide_ops(true, false), depth: tier.pick(2, 3), cfgs: cold, oracles: kv, keys: wide_keys.clone(), trailing_reopens: 0, preload: vec![], words: vec![] });
            scale(&mut sweeps, kv);
            bulk(&mut sweeps, kv);
            sizes(&mut sweeps, kv);
            sweeps.push(Sweep { name: "clock".into(), alphabet: vec![SET_A1, SET_A22, SET_B1, SET_BBIG, DEL_A, DEL_B, Op::Merge], depth: tier.pick(4, 5), cfgs: with_clocks(core_grid(&seeds[..1], &[Thr::All, Thr::Dead], &[0, MFS_BIG])), oracles: kv, keys: main_keys.clone(), trailing_reopens: 0, preload: vec![], words: vec![] });
        }
        "C02" => {
            let alpha = vec![SET_A1, SET_A22, SET_B1, DEL_A, DEL_B, Op::Reopen];
            let o = Oracles { kv: true, reopen_stable: true, ..Default::default() };
            deep("core", alpha, 5, 7, core_grid(&seeds[..1], &[Thr::None], &mfss), o, 3);
            sweeps.push(Sweep { name: "wide".into(), alphabet: wide_ops(false, true), depth: tier.pick(2, 3), cfgs: core_grid(&seeds[..1], &[Thr::None], &[0, 60, MFS_BIG]), oracles: o, keys: wide_keys.clone(), trailing_reopens: 2, preload: vec![], words: vec![] });
            // > 10 files: ids must be ordered numerically, not lexicographically
            sweeps.push(Sweep { name: "many-files".into(), alphabet: vec![SET_A1, SET_A22, DEL_A, Op::Reopen], depth: tier.pick(7, 9), cfgs: core_grid(&seeds[..1], &[Thr::None], &[0]), oracles: o, keys: main_keys.clone(), trailing_reopens: 2, preload: vec![], words: vec![] });
            // the same from a non-initial state: 8 earlier incarnations have left ids 0..7 behind, so
            // the words' entries land in files 8, 9, 10, 11, ... (across the 9 / 10 boundary)
            sweeps.push(Sweep { name: "many-files-from-id-8".into(), alphabet: vec![SET_A1, SET_A22, SET_B1, DEL_A, DEL_B, Op::Reopen], depth: tier.pick(5, 6), cfgs: core_grid(&seeds[..1], &[Thr::None], &[0]), oracles: o, keys: main_keys.clone(), trailing_reopens: 2, preload: vec![Op::Reopen; 8], words: vec![] });
            scale(&mut sweeps, o);
            bulk(&mut sweeps, Oracles { kv: true, ..Default::default() });
            mega(&mut sweeps, Oracles { kv: true, ..Default::default() });
            // histories whose data files include merge outputs (and their hint files)
            sweeps.push(Sweep { name: "with-merges".into(), alphabet: vec![SET_A1, SET_A22, SET_B1, DEL_A, Op::Merge, Op::Reopen], depth: tier.pick(5, 6), cfgs: core_grid(&seeds[..1], &[Thr::All, Thr::Dead, Thr::Size27], &[0, 60]), oracles: o, keys: main_keys.clone(), trailing_reopens: 2, preload: vec![], words: vec![] });
            sweeps.push(Sweep { name: "clock".into(), alphabet: vec![SET_A1, SET_A22, SET_B1, DEL_A, DEL_B, Op::Reopen], depth: tier.pick(4, 6), cfgs: with_clocks(core_grid(&seeds[..1], &[Thr::None], &mfss)), oracles: o, keys: main_keys.clone(), trailing_reopens: 2, preload: vec![], words: vec![] });
        }
        "C05" => {
            if tier == Tier::Quick {
                deep("hot", full.clone(), 5, 5, hot.clone(), kv, 0);
                deep("rest", full.clone(), 4, 4, rest.clone(), kv, 0);
            } else {
                deep("core", full.clone(), 5, 6, core_grid(seeds, &all_thr, &mfss), kv, 0);
            }
            sweeps.push(Sweep { name: "cache-conc".into(), alphabet: full.clone(), depth: 4, cfgs: cache_conc_grid(seeds[0], Thr::Size27), oracles: kv, keys: main_keys.clone(), trailing_reopens: 0, preload: vec![], words: vec![] });
            after_merge(&mut sweeps, tier.pick(4, 5), kv);
            scale(&mut sweeps, kv);
            bulk(&mut sweeps, kv);
            sizes(&mut sweeps, kv);
            sweeps.push(Sweep { name: "clock".into(), alphabet: full.clone(), depth: tier.pick(4, 5), cfgs: with_clocks(core_grid(&seeds[..1], &[Thr::All, Thr::Dead, Thr::Size27], &[0, MFS_BIG])), oracles: kv, keys: main_keys.clone(), trailing_reopens: 0, preload: vec![], words: vec![] });
            sweeps.push(Sweep { name: "wide".into(), alphabet: wide_ops(true, true), depth: tier.pick(2, 3), cfgs: core_grid(&seeds[..1], &[Thr::All, Thr::Size27], &[0, 60]), oracles: kv, keys: wide_keys.clone(), trailing_reopens: 0, preload: vec![], words: vec![] });
            let cold: Vec<Cfg> = core_grid(&seeds[..1], &[Thr::All, Thr::Size27], &[0, 60]).into_iter().map(|c| Cfg { cache: 0, conc: 2, ..c }).collect();
            sweeps.push(Sweep { name: "wide-cold-readers".into(), alphabet: wide_ops(true, true), depth: tier.pick(2, 3), cfgs: cold, oracles: kv, keys: wide_keys.clone(), trailing_reopens: 0, preload: vec![], words: vec![] });
        }
        "C12" => {
            let o = Oracles { c12: true, ..Default::default() };
            // (two recoveries in every state make this the most expensive oracle: the exact-fill
            // file size 27 is left to the other properties' grids in the quick tier)
            let c12_mfss: Vec<u64> = if tier == Tier::Quick { vec![0, 60, MFS_BIG] } else { mfss.to_vec() };
            deep("core", full.clone(), 4, 5, core_grid(seeds, &all_thr, &c12_mfss), o, 0);
            after_merge(&mut sweeps, tier.pick(3, 4), o);
            scale(&mut sweeps, o);
            bulk(&mut sweeps, o);
            mega(&mut sweeps, o);
            // several keys in ONE merge output, one or two of them with an odd value (empty, CR LF NUL,
            // a reserved literal) in every position of the output: a hint record that is dropped or
            // misread in the middle of a hint file (one at its end only makes the file fall short,
            // and a hint file that falls short is not used)
            {
                let ks = [0u8, 2, 3, 4];
                let mut words = vec![];
                for odd in [2u8, 3, 7] {
                    for i in 0..ks.len() {
                        for j in i..ks.len() {
                            let mut w: Vec<Op> = ks.iter().enumerate().map(|(n, &k)| Op::Set(k, if n == i || n == j { odd } else { 0 })).collect();
                            w.push(Op::Merge);
                            words.push(w);
                        }
                    }
                }
                sweeps.push(Sweep { name: "odd-values-inside-a-merge-output".into(), alphabet: vec![], depth: 0, cfgs: core_grid(seeds, &[Thr::All], &[60, MFS_BIG]), oracles: o, keys: wide_keys.clone(), trailing_reopens: 0, preload: vec![], words });
            }
            sweeps.push(Sweep { name: "clock".into(), alphabet: full.clone(), depth: tier.pick(3, 4), cfgs: with_clocks(core_grid(&seeds[..1], &[Thr::All, Thr::Dead, Thr::Size27], &[0, MFS_BIG])), oracles: o, keys: main_keys.clone(), trailing_reopens: 0, preload: vec![], words: vec![] });
            // key and value SHAPES (empty, binary, 300-byte keys; empty, CR/LF/NUL, 9 000- and 70 000-byte values) through a merge
            sweeps.push(Sweep { name: "wide".into(), alphabet: wide_ops(true, false), depth: tier.pick(2, 3), cfgs: core_grid(&seeds[..1], &[Thr::All, Thr::Dead], &[0, MFS_BIG]), oracles: o, keys: wide_keys.clone(), trailing_reopens: 0, preload: vec![], words: vec![] });
        }
        "C13" => {
            let o = Oracles { c13: true, ..Default::default() };
            if tier == Tier::Quick {
                deep("hot", full.clone(), 5, 5, hot.clone(), o, 0);
                deep("rest", full.clone(), 4, 4, rest.clone(), o, 0);
            } else {
                deep("core", full.clone(), 5, 6, core_grid(seeds, &all_thr, &mfss), o, 0);
            }
            after_merge(&mut sweeps, tier.pick(3, 5), o);
            scale(&mut sweeps, o);
            bulk(&mut sweeps, o);
            sweeps.push(Sweep { name: "wide".into(), alphabet: wide_ops(true, true), depth: tier.pick(2, 3), cfgs: core_grid(&seeds[..1], &[Thr::All, Thr::Dead], &[0, MFS_BIG]), oracles: o, keys: wide_keys.clone(), trailing_reopens: 0, preload: vec![], words: vec![] });
        }
        "C14" => {
            let o = Oracles { c14: true, reopen_stable: true, ..Default::default() };
            deep("core", full.clone(), 4, 6, core_grid(seeds, &[Thr::All, Thr::Size27, Thr::Dead], &[0, 20, 27, 60, MFS_BIG]), o, 1);
            // long histories: ids past 9 / 10 and 99 / 100, the third and fourth merge, merges of many files
            scale(&mut sweeps, o);
            // the other sync strategies: interval sync (its ticks issued as operations) and sync at every write
            let mut sync_cfgs: Vec<Cfg> = core_grid(&seeds[..1], &[Thr::All, Thr::Size27], &[0, 27, 60]).into_iter().map(|c| Cfg { clock: 10, ..c }).collect();
            sync_cfgs.extend(core_grid(&seeds[..1], &[Thr::All], &[0, 60]).into_iter().map(|c| Cfg { sync_always: true, ..c }));
            sweeps.push(Sweep { name: "sync-strategies".into(), alphabet: vec![SET_A1, SET_B1, DEL_A, Op::Merge, Op::Reopen, Op::Sync], depth: tier.pick(4, 5), cfgs: sync_cfgs, oracles: o, keys: main_keys.clone(), trailing_reopens: 1, preload: vec![], words: vec![] });
        }
        "C19" => {
            let o = Oracles { c19: true, ..Default::default() };
            if tier == Tier::Quick {
                deep("hot", full.clone(), 5, 5, hot.clone(), o, 0);
                deep("rest", full.clone(), 4, 4, rest.clone(), o, 0);
            } else {
                deep("core", full.clone(), 5, 6, core_grid(seeds, &all_thr, &mfss), o, 0);
            }
            after_merge(&mut sweeps, tier.pick(3, 5), o);
            scale(&mut sweeps, o);
            bulk(&mut sweeps, o);
            sweeps.push(Sweep { name: "wide".into(), alphabet: wide_ops(true, true), depth: tier.pick(2, 3), cfgs: core_grid(&seeds[..1], &[Thr::All, Thr::Dead], &[0, MFS_BIG]), oracles: o, keys: wide_keys.clone(), trailing_reopens: 0, preload: vec![], words: vec![] });
        }
        _ => panic!("no E1 plan for {}", prop),
    }
    sweeps
}

// ---------------------------------------------------------------------------------------------
// worker / replay

pub fn worker(job: &Job) -> Shard {
    let mut sh = Shard::default();
    let t0 = Instant::now();
    let scratch = job.scratch();
    let seeds = probe_seeds(&scratch.join("probe"));
    sh.notes.insert(format!("hash seeds realising merge orders a<b / b<a: {:?}", seeds));
    let sweeps = plan(&job.prop, job.tier, &seeds);
    let dir = scratch.join("store");
    let mut first = true;
    for sw in &sweeps {
        let nw = sw.nwords();
        let total = nw * sw.cfgs.len() as u64;
        let mut done = 0u64;
        let mut idx = job.shard as u64;
        while idx < total {
            if t0.elapsed().as_secs() > job.deadline_s {
                sh.capped = true;
                sh.notes.insert(format!("time cap hit in sweep {} after {} of ~{} cases of this shard", sw.name, done, total / job.nshards as u64));
                break;
            }
            let cfg = sw.cfgs[(idx / nw) as usize];
            let word = sw.word(idx % nw);
            let case = WordCase { prop: &job.prop, sweep: &sw.name, cfg, word: &word, oracles: sw.oracles, keys: &sw.keys, trailing_reopens: sw.trailing_reopens, preload: &sw.preload };
            if done % 64 == 0 {
                job.progress(&case.to_json(None));
            }
            let r = run_word(&case, &dir);
            if first {
                // determinism self-check: the same case twice must give identical observations
                let r2 = run_word(&case, &dir);
                if r2.digest != r.digest {
                    sh.machinery_errors.push(format!("replay divergence on {} under {:?}", show_word(&word), cfg));
                }
                first = false;
            }
            record(&mut sh, &case, r, &dir);
            done += 1;
            idx += job.nshards as u64;
        }
        sh.count(&format!("sweep:{}:cases", sw.name), done);
    }
    rmrf(&scratch);
    sh
}

fn record(sh: &mut Shard, case: &WordCase, r: WordResult, dir: &Path) {
    sh.evaluations += 1;
    sh.transitions += r.steps;
    for s in &r.states {
        sh.states.insert(*s);
    }
    // a word is non-trivial (and distinct) by the fingerprint of the final state it reaches
    if let Some(last) = r.states.last() {
        sh.nontrivial.insert(*last);
    }
    sh.outcome(r.outcome.clone());
    for m in &r.merge_subsets {
        let k = format!("merge-subset:{}", m);
        if sh.counters.len() < 400 || sh.counters.contains_key(&k) {
            sh.count(&k, 1);
        }
    }
    sh.count("states-with-hint-file", r.hint_states);
    sh.count("states-with-2+-hint-files", r.multi_hint_states);
    if sh.samples.len() < 3 && r.steps > 0 && sh.evaluations % 97 == 1 {
        sh.samples.push(json!({"cfg": case.cfg.to_json(), "word": show_word(case.word), "returns": r.outcome}));
    }
    if !r.violations.is_empty() {
        // confirm by re-execution before reporting
        let r2 = run_word(case, dir);
        let same = r2.violations.iter().map(|v| &v.0).collect::<Vec<_>>() == r.violations.iter().map(|v| &v.0).collect::<Vec<_>>();
        if !same {
            sh.machinery_errors.push(format!("violation not reproduced on re-execution: {} under {:?}: {:?} vs {:?}", show_word(case.word), case.cfg, r.violations, r2.violations));
            return;
        }
        let mut seen = BTreeSet::new();
        for (class, msg, step) in r.violations {
            if !seen.insert(class.clone()) {
                continue;
            }
            let msg = if msg.len() > 700 { format!("{} ... [{} characters]", msg.chars().take(700).collect::<String>(), msg.len()) } else { msg };
            let shown_word = { let t = show_word(case.word); if t.len() > 900 { format!("{} ... [{} operations]", t.chars().take(900).collect::<String>(), case.word.len()) } else { t } };
            sh.violate(Violation { class: classify(&class, case, step), msg: format!("{} | cfg {:?} | {}word: {} | step {:?}", msg, case.cfg, if case.preload.is_empty() { String::new() } else { format!("first (unchecked): {} | ", show_word(case.preload)) }, shown_word, step), case: case.to_json(step) });
        }
    }
}

/// Root-cause classifier hook: refine a raw class with facts about the failing case.
fn classify(class: &str, _case: &WordCase, _step: Option<usize>) -> String {
    class.to_string()
}

fn oracles_for(prop: &str) -> Oracles {
    match prop {
        "C01" | "C05" => Oracles { kv: true, ..Default::default() },
        "C02" => Oracles { kv: true, reopen_stable: true, ..Default::default() },
        "C12" => Oracles { c12: true, ..Default::default() },
        "C13" => Oracles { c13: true, ..Default::default() },
        "C14" => Oracles { c14: true, reopen_stable: true, ..Default::default() },
        "C19" => Oracles { c19: true, ..Default::default() },
        _ => Oracles::default(),
    }
}

pub fn replay(prop: &str, case: &Value) -> Vec<Violation> {
    let cfg = Cfg::from_json(&case["cfg"]).expect("cfg");
    let word = word_from_json(&case["word"]).expect("word");
    let keys: Vec<u8> = case["keys"].as_array().map(|a| a.iter().map(|x| x.as_u64().unwrap() as u8).collect()).unwrap_or_else(|| vec![0, 1, NEVER_KEY]);
    let trailing = case["trailing_reopens"].as_u64().unwrap_or(0) as usize;
    let dir = PathBuf::from(format!("/dev/shm/vh-replay-{}", std::process::id()));
    let preload = case.get("preload").and_then(word_from_json).unwrap_or_default();
    let wc = WordCase { prop, sweep: "replay", cfg, word: &word, oracles: oracles_for(prop), keys: &keys, trailing_reopens: trailing, preload: &preload };
    let r = run_word(&wc, &dir);
    rmrf(&dir);
    r.violations.into_iter().map(|(class, msg, step)| Violation { class: classify(&class, &wc, step), msg, case: wc.to_json(step) }).collect()
}

pub fn report_meta(prop: &str, tier: Tier) -> (String, Value, Vec<String>) {
    let sweeps = plan(prop, tier, &[1, 2]);
    let rule = format!(
        "every word of exactly the stated depth over the stated operation alphabet, for every configuration of the grid, executed from an empty directory on the real store; oracles evaluated after every step (so every shorter word is covered as a prefix). A case is counted distinct+non-trivial by the canonical fingerprint of the final implementation state it reaches (decoded files, index, counters, active id). Sweeps: {}",
        sweeps.iter().map(|s| format!("{}: |alphabet|={} depth={} configs={} words={}", s.name, s.alphabet.len(), s.depth, s.cfgs.len(), s.nwords() * s.cfgs.len() as u64)).collect::<Vec<_>>().join("; ")
    );
    let bounds = json!({
        "sweeps": sweeps.iter().map(|s| json!({"name": s.name, "alphabet": s.alphabet.iter().map(|o| o.show()).collect::<Vec<_>>(), "depth": s.depth, "configs": s.cfgs.len(), "cases": s.nwords() * s.cfgs.len() as u64})).collect::<Vec<_>>(),
    });
    let assumptions = vec![
        "two colliding keys (plus empty / binary / 300-byte keys in the wide sweep) and values up to 70 000 bytes stand for arbitrary bytes: bincode length-prefixes everything, no byte value is special to the store".to_string(),
        "the background worker is neutralised (merge policy never, no interval sync); merges are issued by the harness through the verif_merge hook".to_string(),
        "DashMap iteration order (merge copy order) is a function of the interposed getrandom seed; both orders of the two main keys are exercised".to_string(),
        "scratch directories are on tmpfs (/dev/shm)".to_string(),
    ];
    (rule, bounds, assumptions)
}
