//! `vh` — the single verification harness binary (DESIGN §4.1).
//!
//!   vh check <Cxx> [--tier quick|thorough] [--replay <file>]
//!   vh worker <Cxx> <tier> <seed> <shard> <nshards> <outdir> <pass> <deadline_s>     (internal)

#![allow(dead_code)]
mod common;
mod e1;
mod e2;
mod e3;
mod e3b;
mod e4;
mod e5;
mod e5b;
mod e6;
mod iohook;
mod model;
mod sched;

use std::path::PathBuf;
use std::time::Instant;

use common::*;
use serde_json::{json, Map, Value};

fn engine_of(prop: &str) -> &'static str {
    match prop {
        "C01" | "C02" | "C05" | "C12" | "C13" | "C19" => "e1",
        "C14" => "e1+e2",
        "C03" | "C09" | "C20" => "e2",
        "C04" => "e3",
        "C07" | "C08" => "e4",
        "C06" | "C10" | "C11" | "C15" | "C16" => "e5",
        "C17" | "C18" => "e6",
        _ => "",
    }
}

fn quiet_panics() {
    // the subject's panics are observations; keep stderr readable
    if std::env::var("VH_VERBOSE_PANICS").is_err() {
        std::panic::set_hook(Box::new(|info| {
            let t = std::thread::current();
            if t.name() == Some("main") {
                eprintln!("harness panic: {}", info);
            }
        }));
    }
}

fn main() {
    let args: Vec<String> = std::env::args().collect();
    if args.len() < 2 {
        eprintln!("usage: vh check <Cxx> [--tier quick|thorough] [--replay file]");
        std::process::exit(2);
    }
    bitcask::verif::set_hook(sched::hook);
    match args[1].as_str() {
        "worker" => {
            quiet_panics();
            let job = Job {
                prop: args[2].clone(),
                tier: Tier::parse(&args[3]),
                seed: args[4].parse().unwrap(),
                shard: args[5].parse().unwrap(),
                nshards: args[6].parse().unwrap(),
                outdir: PathBuf::from(&args[7]),
                pass: args[8].clone(),
                deadline_s: args[9].parse().unwrap(),
            };
            let sh = match job.pass.split(':').next().unwrap() {
                "e1" => e1::worker(&job),
                "e2" => e2::worker(&job),
                "e3" => if job.pass == "e3:readfault" { e3b::worker(&job) } else { e3::worker(&job) },
                "e4" => e4::worker(&job),
                "e5" => e5::worker(&job),
                "e6" => e6::worker(&job),
                p => panic!("unknown pass {}", p),
            };
            sh.save(&job.result_path());
            std::process::exit(0);
        }
        "child" => {
            quiet_panics();
            // one-shot sub-commands that must run in their own process
            let code = match args[2].as_str() {
                "e2-recover" => e2::child_recover(&args[3..]),
                "e4-deep" => e4::child_deep(&args[3..]),
                "e5-server" => e5::child_server(&args[3..]),
                x => panic!("unknown child {}", x),
            };
            std::process::exit(code);
        }
        "check" => {
            let prop = args[2].clone();
            let mut tier = Tier::parse(&std::env::var("VERIF_TIER").unwrap_or_default());
            let mut replay: Option<String> = None;
            let mut i = 3;
            while i < args.len() {
                match args[i].as_str() {
                    "--tier" => {
                        tier = Tier::parse(&args[i + 1]);
                        i += 2;
                    }
                    "--replay" => {
                        replay = Some(args[i + 1].clone());
                        i += 2;
                    }
                    _ => i += 1,
                }
            }
            let seed: u64 = std::env::var("VERIF_SEED").ok().and_then(|s| s.parse().ok()).unwrap_or(0);
            let code = match replay {
                Some(f) => do_replay(&prop, &f),
                None => do_check(&prop, tier, seed),
            };
            std::process::exit(code);
        }
        x => {
            eprintln!("unknown command {}", x);
            std::process::exit(2);
        }
    }
}

fn do_replay(prop: &str, file: &str) -> i32 {
    quiet_panics();
    let v: Value = serde_json::from_slice(&std::fs::read(file).expect("read replay file")).expect("replay json");
    let case = &v["case"];
    let engine = case["engine"].as_str().unwrap_or("");
    let viols = match engine {
        "seq" => e1::replay(prop, case),
        "crash" => e2::replay(prop, case),
        "sched" => if case["kind"] == "readfault" { e3b::replay(case) } else { e3::replay(prop, case) },
        "resp" => e4::replay(prop, case),
        "net" => e5::replay(prop, case),
        "vtime" => e6::replay(prop, case),
        e => {
            eprintln!("unknown engine {:?} in replay file", e);
            return 2;
        }
    };
    let want = v["class"].as_str().unwrap_or("");
    let findings = load_findings();
    let mut code = 0;
    if viols.is_empty() {
        println!("REPLAY property={} file={}: no violation (recorded class was {})", prop, file, want);
    }
    for vi in &viols {
        let known = findings.iter().any(|f| f.property == prop && f.status == "known" && f.key == vi.class);
        if known {
            println!("KNOWN-FINDING: property={} key={} {}", prop, vi.class, vi.msg);
        } else {
            println!("VIOLATION property={} replay={}", prop, file);
            println!("  class={} :: {}", vi.class, vi.msg);
            code = 1;
        }
    }
    code
}

fn do_check(prop: &str, tier: Tier, seed: u64) -> i32 {
    let t0 = Instant::now();
    let outdir = PathBuf::from(format!("/dev/shm/vh-{}", std::process::id()));
    rmrf(&outdir);
    std::fs::create_dir_all(&outdir).unwrap();
    let n = ncores();
    let eng = engine_of(prop);
    if eng.is_empty() {
        eprintln!("unknown property {}", prop);
        return 2;
    }
    let deadline = std::env::var("VH_DEADLINE_S").ok().and_then(|s| s.parse().ok()).unwrap_or(tier.pick(600u64, 7200u64));
    let mut shard = Shard::default();
    let mut extra = Map::new();
    let passes: Vec<String> = match prop {
        "C14" => vec!["e1".into(), "e2:c14".into()],
        "C03" => vec!["e2:crash".into()],
        "C09" => vec!["e2:power".into()],
        "C20" => vec!["e2:fault".into(), "e5:c20".into()],
        "C04" => vec!["e3".into(), "e3:readfault".into()],
        _ => vec![eng.to_string()],
    };
    for pass in &passes {
        let nsh = match pass.split(':').next().unwrap() {
            "e5" | "e6" => n, // one server / one store per worker process
            _ => n,
        };
        let po = run_pass(prop, tier, seed, pass, nsh, &outdir, deadline);
        shard.merge(po.shard);
        for (i, how, case) in po.deaths {
            // a dead worker is a process abort while executing `case`
            shard.violate(Violation { class: format!("{}:process-abort", prop), msg: format!("worker {} of pass {} died ({}) while executing {}", i, pass, how, case), case });
        }
    }
    let (level, rule, bounds, assumptions, exhaustive) = match eng {
        "e1" => {
            let (r, b, a) = e1::report_meta(prop, tier);
            ("model_checking", r, b, a, true)
        }
        "e1+e2" => {
            let (r, b, mut a) = e1::report_meta(prop, tier);
            let (r2, b2, a2) = e2::report_meta(prop, tier);
            a.extend(a2);
            ("model_checking", format!("{} || {}", r, r2), json!({"e1": b, "e2": b2}), a, true)
        }
        "e2" => {
            let (r, b, a) = e2::report_meta(prop, tier);
            ("fault_enumeration", r, b, a, true)
        }
        "e3" => {
            let (r, b, a) = e3::report_meta(prop, tier);
            ("model_checking", r, b, a, true)
        }
        "e4" => {
            let (r, b, a) = e4::report_meta(prop, tier);
            ("model_checking", r, b, a, true)
        }
        "e5" => {
            let (r, b, a) = e5::report_meta(prop, tier);
            ("model_checking", r, b, a, true)
        }
        "e6" => {
            let (r, b, a) = e6::report_meta(prop, tier);
            ("model_checking", r, b, a, true)
        }
        _ => unreachable!(),
    };
    let rule = format!("{}{}", rule, rule_addendum(prop));
    extra.insert("engine".into(), json!(eng));
    extra.insert("passes".into(), json!(passes));
    extra.insert("workers".into(), json!(n));
    rmrf(&outdir);
    finalize(Report { prop: prop.into(), tier, seed, level, rule, bounds, assumptions, exhaustive, shard, t0, extra })
}

/// Later additions to what each check enumerates (same wording as in MANIFEST.json).
fn rule_addendum(prop: &str) -> &'static str {
    match prop {
        "C02" => " The wide sweep includes the two value literals the reference implementation reserves for deletions; one word sets 2^20+2 keys (one data file, one start-up scan).",
        "C04" => " Third pass (slow reads): with a pool of one reader, in every state reached by words of length <= 2, a get is stalled at each of its read-path calls (it holds the only pooled reader) while another thread gets either key; nobody panics or hangs, both reads are right, the pool is whole afterwards. Merge storm: with no reader cache every open of a get is slow, and a full merge (which relocates the value and removes its file) is given the chance to complete during each open, up to 12 rounds; the get returns the model's value.",
        "C07" => " Every byte value 0..255 at every position of 24 well-formed messages (type bytes, signs, digits, CR, LF, payload) against the reference decoder.",
        "C08" => " After every prefix the scripted transport also FAILS (reset, aborted, broken pipe, timed out, unexpected end, other): inside a frame that must be reported as an error, never as a clean end.",
        "C10" => " The client that does not read: 1 or 3 GETs of a 16 KiB .. 1 MiB (4 MiB) value with a 4 KiB receive buffer, nothing read, then garbage / an unknown command / a request prefix / nothing, with and without half-close; the server thread may not be busy with that for more than 6 s, the control connection and a new connection are answered at once, the replies the client finally reads are complete, the data is unchanged.",
        "C11" => " Faulted commands: DEL k or SET k 1 whose store call fails (every file-system call it makes returns EIO; its first write is slow and then fails, which is a switching point) is stepped through its hook points while another client's two GET k run before every pair of those points; the client of the failed command gets no success reply and all reads must be explained by the failed command taking effect once or not at all.",
        "C12" => " One word sets 2^20+2 keys, merges and reopens (more than 2^20 records in one hint file); the bulk words also run with one entry per file (merge passes over thousands of files); 30 words put four keys into one merge output with one or two odd values (empty, CR LF NUL, a reserved literal) in every position.",
        "C19" => " The bulk words also run with one entry per file (file size limit 0: merge passes over up to 4 100 files).",
        "C15" => " In the final phase the N connections stay open and silent while a minute, an hour and two days pass for the server; connections it closed are replaced (all must be served) and one more must wait.",
        "C16" => " After the signal ten minutes pass for the server thread (timers it sleeps on fire) while commands are held or a reply is stalled: run() must still be waiting.",
        "C17" => " Every single-drop case is run a second time with the owner dropped by an unwinding panic (thread::panicking() is true inside the drop).",
        "C18" => " In 32 further configurations a client's set is in the middle of its write (inside the writer lock) when tick k comes: the merge waits for the lock and runs at that tick.",
        "C20" => " Second pass at the RESP server: DEL of three / two / one keys and SET, with the store call for one key failing; a command that is acknowledged must read correctly afterwards (an integer reply to DEL means every named key is gone), unnamed keys are untouched, the server keeps serving.",
        _ => "",
    }
}
