//! Baton scheduler for real threads (DESIGN §5 E3, Appendix A.2).
//!
//! Exactly one controlled thread runs at a time. A controlled thread runs until it reaches a
//! *point* (an interposed system call on a store file, or a hook event of the bitcask crate),
//! where it parks; the explorer thread then chooses which parked, enabled thread runs next.
//! Shadow locks (announced by `Acquire`/`Release`/`MergeAt`) tell the scheduler which threads
//! are disabled, so a real lock is never contended while its holder is parked.

use std::cell::Cell;
use std::collections::HashMap;
use std::sync::{Condvar, Mutex};
use std::time::{Duration, Instant};

use bitcask::verif::{Ev, Res, KD_ITER, WRITER};

#[derive(Clone, Debug, PartialEq, Eq)]
pub enum Status {
    /// Registered but its OS thread has not reached its first point yet / is executing.
    Running,
    Parked,
    Done,
}

#[derive(Clone, Debug)]
pub struct T {
    pub status: Status,
    pub want: Option<(Res, bool)>,
    pub yielded_at: Option<usize>,
    pub label: String,
}

#[derive(Default, Debug)]
pub struct Locks {
    writer: Option<usize>,
    kd_excl: HashMap<u64, usize>,
    kd_shared: HashMap<u64, Vec<usize>>,
    iter_owner: Option<usize>,
    iter_all: bool,
    iter_shard: Option<u64>,
}

impl Locks {
    fn kd_held_by_other(&self, me: usize) -> bool {
        self.kd_excl.values().any(|&o| o != me) || self.kd_shared.values().any(|v| v.iter().any(|&o| o != me))
    }
    pub fn grantable(&self, me: usize, res: Res, excl: bool) -> bool {
        if res == WRITER {
            return self.writer.is_none() || self.writer == Some(me);
        }
        if res == KD_ITER {
            return (self.iter_owner.is_none() || self.iter_owner == Some(me)) && !self.kd_held_by_other(me);
        }
        if res.0 == "kd" {
            let s = res.1;
            if let Some(o) = self.iter_owner {
                if o != me && (self.iter_all || self.iter_shard == Some(s)) {
                    return false;
                }
            }
            if self.kd_excl.get(&s).map_or(false, |&o| o != me) {
                return false;
            }
            if excl && self.kd_shared.get(&s).map_or(false, |v| v.iter().any(|&o| o != me)) {
                return false;
            }
            return true;
        }
        true
    }
    pub fn grant(&mut self, me: usize, res: Res, excl: bool) {
        if res == WRITER {
            self.writer = Some(me);
        } else if res == KD_ITER {
            self.iter_owner = Some(me);
            self.iter_all = true;
            self.iter_shard = None;
        } else if res.0 == "kd" {
            if excl {
                self.kd_excl.insert(res.1, me);
            } else {
                self.kd_shared.entry(res.1).or_default().push(me);
            }
        }
    }
    pub fn release(&mut self, me: usize, res: Res, excl: bool) {
        if res == WRITER {
            if self.writer == Some(me) {
                self.writer = None;
            }
        } else if res == KD_ITER {
            if self.iter_owner == Some(me) {
                self.iter_owner = None;
                self.iter_all = false;
                self.iter_shard = None;
            }
        } else if res.0 == "kd" {
            if excl {
                if self.kd_excl.get(&res.1) == Some(&me) {
                    self.kd_excl.remove(&res.1);
                }
            } else if let Some(v) = self.kd_shared.get_mut(&res.1) {
                if let Some(i) = v.iter().position(|&o| o == me) {
                    v.remove(i);
                }
            }
        }
    }
    pub fn merge_at(&mut self, me: usize, shard: u64) {
        if self.iter_owner == Some(me) {
            self.iter_all = false;
            self.iter_shard = Some(shard);
        }
    }
    /// Drop everything a (dead / finished) thread still holds.
    pub fn release_all(&mut self, me: usize) {
        if self.writer == Some(me) {
            self.writer = None;
        }
        if self.iter_owner == Some(me) {
            self.iter_owner = None;
            self.iter_all = false;
            self.iter_shard = None;
        }
        self.kd_excl.retain(|_, o| *o != me);
        for v in self.kd_shared.values_mut() {
            v.retain(|&o| o != me);
        }
    }
}

pub struct St {
    pub threads: Vec<T>,
    pub running: Option<usize>,
    pub locks: Locks,
    pub steps: usize,
    pub last_step_by: Option<usize>,
    /// Set when the explorer gives up on an execution: parked threads then run free.
    pub abandoned: bool,
}

pub struct Sched {
    pub m: Mutex<St>,
    pub cv: Condvar,
}

thread_local! {
    static CTX: Cell<Option<(&'static Sched, usize)>> = const { Cell::new(None) };
}

impl Sched {
    pub fn new_leaked(nthreads: usize) -> &'static Sched {
        let threads = (0..nthreads)
            .map(|_| T { status: Status::Running, want: None, yielded_at: None, label: "spawn".into() })
            .collect();
        Box::leak(Box::new(Sched {
            m: Mutex::new(St { threads, running: None, locks: Locks::default(), steps: 0, last_step_by: None, abandoned: false }),
            cv: Condvar::new(),
        }))
    }
    /// Register a further thread slot (status Running) and return its index.
    pub fn add_thread(&self, label: &str) -> usize {
        let mut st = self.m.lock().unwrap();
        st.threads.push(T { status: Status::Running, want: None, yielded_at: None, label: label.into() });
        st.threads.len() - 1
    }
    pub fn steps(&self) -> usize {
        self.m.lock().unwrap().steps
    }
}

/// Attach the calling OS thread to slot `me` of `s`.
pub fn attach(s: &'static Sched, me: usize) {
    CTX.with(|c| c.set(Some((s, me))));
}
/// Mark the calling thread's slot as finished and detach.
pub fn finish() {
    if let Some((s, me)) = CTX.with(|c| c.get()) {
        let mut st = s.m.lock().unwrap();
        st.threads[me].status = Status::Done;
        st.threads[me].label = "done".into();
        st.locks.release_all(me);
        if st.running == Some(me) {
            st.running = None;
        }
        s.cv.notify_all();
    }
    CTX.with(|c| c.set(None));
}
pub fn controlled() -> bool {
    CTX.try_with(|c| c.get().is_some()).unwrap_or(false)
}
pub fn current() -> Option<(&'static Sched, usize)> {
    CTX.try_with(|c| c.get()).ok().flatten()
}

pub fn park(want: Option<(Res, bool)>, yielded: bool, label: &str) {
    let Some((s, me)) = current() else { return };
    let mut st = s.m.lock().unwrap();
    if st.abandoned {
        drop(st);
        if yielded {
            // the execution was given up (deadlock / livelock verdict): break out of the spin loop
            panic!("abandoned execution: leaving the spin loop");
        }
        return;
    }
    st.threads[me].status = Status::Parked;
    st.threads[me].want = want;
    st.threads[me].label = label.to_string();
    st.threads[me].yielded_at = if yielded { Some(st.steps) } else { None };
    if st.running == Some(me) {
        st.running = None;
    }
    s.cv.notify_all();
    while st.running != Some(me) && !st.abandoned {
        st = s.cv.wait(st).unwrap();
    }
    st.threads[me].status = Status::Running;
    if !st.abandoned {
        if let Some((r, ex)) = want {
            st.locks.grant(me, r, ex);
        }
    } else if yielded {
        drop(st);
        panic!("abandoned execution: leaving the spin loop");
    }
}

pub fn park_io(label: &'static str) {
    park(None, false, label);
}

/// The hook installed into the bitcask crate.
pub fn hook(ev: Ev) {
    if !controlled() {
        crate::e6::uncontrolled_hook(ev);
        return;
    }
    match ev {
        Ev::Point(n) => park(None, false, n),
        Ev::Acquire(r, ex) => park(Some((r, ex)), false, r.0),
        Ev::SpinYield => park(None, true, "spin"),
        Ev::Release(r, ex) => {
            if let Some((s, me)) = current() {
                let mut st = s.m.lock().unwrap();
                st.locks.release(me, r, ex);
            }
        }
        Ev::MergeAt(shard) => {
            if let Some((s, me)) = current() {
                let mut st = s.m.lock().unwrap();
                st.locks.merge_at(me, shard);
            }
        }
    }
}

/// One decision of the explorer: how many threads were enabled, which index was chosen, and
/// whether the previously running thread was among the enabled ones (so that choosing another
/// one costs a preemption).
#[derive(Clone, Copy, Debug, PartialEq, Eq)]
pub struct Decision {
    pub n_enabled: usize,
    pub choice: usize,
    pub prev_enabled: bool,
    pub thread: usize,
}

#[derive(Debug)]
pub enum RunEnd {
    AllDone,
    /// No enabled thread (deadlock) or step cap exceeded / only spinners (livelock).
    Stuck(String),
    /// A controlled thread neither parked nor finished within the stall timeout: machinery problem.
    Stall(String),
    /// The prefix asked for a choice that does not exist: replay divergence.
    Diverged(String),
}

/// Drive one execution: follow `prefix`, then always take choice 0. Returns the decisions taken,
/// the labels of the steps, and how the run ended.
pub fn drive(s: &'static Sched, prefix: &[usize], step_cap: usize) -> (Vec<Decision>, Vec<String>, RunEnd) {
    let mut trace: Vec<Decision> = vec![];
    let mut labels = vec![];
    let mut prev: Option<usize> = None;
    loop {
        let mut st = s.m.lock().unwrap();
        let t0 = Instant::now();
        while !(st.running.is_none() && st.threads.iter().all(|t| t.status != Status::Running)) {
            let (g, to) = s.cv.wait_timeout(st, Duration::from_millis(200)).unwrap();
            st = g;
            if to.timed_out() && t0.elapsed() > Duration::from_secs(20) {
                let d = format!("{:?}", st.threads.iter().map(|t| (t.status.clone(), t.label.clone())).collect::<Vec<_>>());
                st.abandoned = true;
                s.cv.notify_all();
                return (trace, labels, RunEnd::Stall(d));
            }
        }
        if st.threads.iter().all(|t| t.status == Status::Done) {
            return (trace, labels, RunEnd::AllDone);
        }
        let mut en: Vec<usize> = (0..st.threads.len())
            .filter(|&i| {
                let t = &st.threads[i];
                t.status == Status::Parked
                    && t.want.map_or(true, |(r, ex)| st.locks.grantable(i, r, ex))
                    && match t.yielded_at {
                        None => true,
                        Some(at) => st.steps > at && st.last_step_by != Some(i),
                    }
            })
            .collect();
        if en.is_empty() || st.steps > step_cap {
            let d = format!(
                "step {} threads {:?}",
                st.steps,
                st.threads.iter().map(|t| (format!("{:?}", t.status), t.label.clone(), t.want.map(|w| format!("{}:{}", (w.0).0, (w.0).1)))).collect::<Vec<_>>()
            );
            st.abandoned = true;
            s.cv.notify_all();
            return (trace, labels, RunEnd::Stuck(d));
        }
        let prev_enabled = prev.map_or(false, |p| en.contains(&p));
        if prev_enabled {
            let p = prev.unwrap();
            en.retain(|&x| x != p);
            en.insert(0, p);
        }
        let i = trace.len();
        let choice = if i < prefix.len() { prefix[i] } else { 0 };
        if choice >= en.len() {
            st.abandoned = true;
            s.cv.notify_all();
            return (trace, labels, RunEnd::Diverged(format!("step {} wants choice {} of {}", i, choice, en.len())));
        }
        let t = en[choice];
        trace.push(Decision { n_enabled: en.len(), choice, prev_enabled, thread: t });
        labels.push(format!("T{}:{}", t, st.threads[t].label));
        st.steps += 1;
        st.last_step_by = Some(t);
        st.running = Some(t);
        st.threads[t].status = Status::Running;
        prev = Some(t);
        s.cv.notify_all();
    }
}

/// Children of an executed schedule in the preemption-bounded DFS: every alternative choice at a
/// position at or after `from` whose preemption count stays within `bound`.
pub fn expand(trace: &[Decision], from: usize, bound: usize) -> Vec<Vec<usize>> {
    let mut out = vec![];
    let mut pre = 0usize;
    for i in 0..trace.len() {
        let d = trace[i];
        if i >= from {
            for alt in 1..d.n_enabled {
                let cost = pre + usize::from(d.prev_enabled);
                if cost <= bound {
                    let mut p: Vec<usize> = trace[..i].iter().map(|x| x.choice).collect();
                    p.push(alt);
                    out.push(p);
                }
            }
        }
        if d.prev_enabled && d.choice != 0 {
            pre += 1;
        }
    }
    out
}

pub fn preemptions(trace: &[Decision]) -> usize {
    trace.iter().filter(|d| d.prev_enabled && d.choice != 0).count()
}
