//! E6 `vtime` — the store's background worker in virtual time, with gates at its hook points
//! (DESIGN §5 E6). Serves C18 (policy grid) and C17 (drop at every gate position).

use std::collections::BTreeMap;
use std::path::{Path, PathBuf};
use std::sync::atomic::{AtomicBool, Ordering};
use std::sync::{Condvar, Mutex};
use std::time::{Duration, Instant};

use bitcask::storage::bitcask::{Config, SyncStrategy, VerifMergePolicy};
use bitcask::storage::KeyValueStorage;
use bitcask::verif::Ev;
use bytes::Bytes;
use chrono::Timelike;
use serde_json::{json, Value};

use crate::common::*;
use crate::iohook::{self, Call};
use crate::model::Kv;

// ---------------------------------------------------------------------------------------------
// gates for threads the harness does not schedule (background worker + its blocking pool)

#[derive(Default)]
struct BgState {
    /// labels of `bg:*` points at which the worker is held
    hold_labels: Vec<&'static str>,
    /// hold the n-th (1-based) inner hook event emitted on a blocking-pool thread
    hold_inner: Option<usize>,
    inner_seen: usize,
    /// (label, virtual ms, real instant index) of every bg:* point reached
    events: Vec<(String, i64)>,
    /// description of the point a thread is currently held at
    held_at: Option<String>,
    /// number of releases granted so far / consumed
    releases: usize,
    consumed: usize,
    /// number of holds that have started
    hold_seq: usize,
}

struct BgCtl {
    m: Mutex<BgState>,
    cv: Condvar,
}

static ENABLED: AtomicBool = AtomicBool::new(false);
static CTL: BgCtl = BgCtl { m: Mutex::new(BgState { hold_labels: Vec::new(), hold_inner: None, inner_seen: 0, events: Vec::new(), held_at: None, releases: 0, consumed: 0, hold_seq: 0 }), cv: Condvar::new() };

fn ctl_reset(hold_labels: Vec<&'static str>, hold_inner: Option<usize>) {
    let mut st = CTL.m.lock().unwrap();
    *st = BgState { hold_labels, hold_inner, ..Default::default() };
    ENABLED.store(true, Ordering::SeqCst);
}
fn ctl_disable() {
    ENABLED.store(false, Ordering::SeqCst);
    let mut st = CTL.m.lock().unwrap();
    st.hold_labels.clear();
    st.hold_inner = None;
    st.releases = usize::MAX / 2;
    CTL.cv.notify_all();
}
fn hold_here(mut st: std::sync::MutexGuard<'_, BgState>, what: String) {
    st.held_at = Some(what);
    st.hold_seq += 1;
    CTL.cv.notify_all();
    while st.consumed >= st.releases {
        st = CTL.cv.wait(st).unwrap();
    }
    st.consumed += 1;
    st.held_at = None;
    CTL.cv.notify_all();
}
/// Wait until a thread is held; returns what it is held at.
fn wait_held(timeout: Duration) -> Option<String> {
    let t0 = Instant::now();
    let mut st = CTL.m.lock().unwrap();
    loop {
        // a hold that has started and has not been released yet
        if st.hold_seq > st.releases {
            if let Some(h) = &st.held_at {
                return Some(h.clone());
            }
        }
        let left = timeout.checked_sub(t0.elapsed())?;
        st = CTL.cv.wait_timeout(st, left).unwrap().0;
    }
}
fn release_one() {
    let mut st = CTL.m.lock().unwrap();
    st.releases += 1;
    CTL.cv.notify_all();
}
fn set_holds(labels: Vec<&'static str>, inner: Option<usize>) {
    let mut st = CTL.m.lock().unwrap();
    st.hold_labels = labels;
    st.hold_inner = inner;
}
fn events() -> Vec<(String, i64)> {
    CTL.m.lock().unwrap().events.clone()
}
fn inner_seen() -> usize {
    CTL.m.lock().unwrap().inner_seen
}

/// Hook events emitted on threads that are not under the E3 scheduler.
pub fn uncontrolled_hook(ev: Ev) {
    if !ENABLED.load(Ordering::SeqCst) {
        return;
    }
    match ev {
        Ev::Point(l) if l.starts_with("bg:") => {
            let mut st = CTL.m.lock().unwrap();
            st.events.push((l.to_string(), iohook::vnow_ms()));
            if st.hold_labels.contains(&l) {
                hold_here(st, l.to_string());
            } else {
                drop(st);
            }
            // a blocking operation is about to be spawned: virtual time waits for it
            if l == "bg:merge:go" || l == "bg:sync:tick" {
                iohook::vtime_busy(1);
            }
            if l == "bg:merge:done" || l == "bg:sync:done" {
                iohook::vtime_seen();
            }
        }
        Ev::Release(r, _) => {
            if r == bitcask::verif::WRITER && std::thread::current().name().map_or(false, |n| n.starts_with("tokio-runtime-w")) {
                iohook::vtime_busy(-1);
            }
        }
        other => {
            // inner points of a background merge / sync: hook events on the worker's blocking pool
            let t = std::thread::current();
            // (and on a thread of the harness that performs a handle operation to be held: "vh-user")
            if t.name().map_or(false, |n| n.starts_with("tokio-runtime-w") || n.starts_with("vh-user")) {
                let mut st = CTL.m.lock().unwrap();
                st.inner_seen += 1;
                if st.hold_inner == Some(st.inner_seen) {
                    let what = format!("inner#{}:{:?}", st.inner_seen, other);
                    hold_here(st, what);
                }
            }
        }
    }
}

fn bg_threads_alive() -> usize {
    let mut n = 0;
    if let Ok(rd) = std::fs::read_dir("/proc/self/task") {
        for e in rd.flatten() {
            if let Ok(c) = std::fs::read_to_string(e.path().join("comm")) {
                if c.starts_with("bitcask-backgro") {
                    n += 1;
                }
            }
        }
    }
    n
}
fn thread_count() -> usize {
    std::fs::read_dir("/proc/self/task").map(|r| r.count()).unwrap_or(0)
}
fn fd_count() -> usize {
    std::fs::read_dir("/proc/self/fd").map(|r| r.count()).unwrap_or(0)
}
fn wait_bg_gone(timeout: Duration) -> Option<Duration> {
    let t0 = Instant::now();
    loop {
        if bg_threads_alive() == 0 {
            return Some(t0.elapsed());
        }
        if t0.elapsed() > timeout {
            return None;
        }
        std::thread::sleep(Duration::from_micros(200));
    }
}

fn b(s: &str) -> Bytes {
    Bytes::from(s.to_string())
}

// ---------------------------------------------------------------------------------------------
// C18

#[derive(Clone, Copy, Debug, PartialEq, Eq)]
pub enum Policy {
    Never,
    Always,
    WindowIn,
    WindowOut,
    /// window [hour + a, hour + b] around the current hour (100 stands for "hour 0" / "hour 23":
    /// the whole day); skipped when an edge falls outside 0..23
    Window(i8, i8),
}
#[derive(Clone, Copy, Debug, PartialEq, Eq)]
pub enum Trig {
    None,
    DeadBytes,
    Frag,
    Both,
    /// dead bytes exactly EQUAL to the trigger at every tick: "exceeds" is strict, no merge may run
    DeadEq,
    /// fragmentation exactly equal to the trigger
    FragEq,
    /// dead-bytes trigger 0 and no dead bytes at all (only distinct keys written)
    ZeroNoDead,
}
#[derive(Clone, Copy, Debug, PartialEq, Eq)]
pub enum SyncS {
    None,
    Always,
    Interval(u64),
}

#[derive(Clone, Debug)]
pub struct C18Case {
    pub policy: Policy,
    pub trig: Trig,
    /// the trigger is crossed while the worker is held at its k-th tick (1-based)
    pub k: usize,
    pub interval_ms: u64,
    pub jitter: f64,
    pub sync: SyncS,
    pub horizon: usize,
    /// the merge triggered at tick k fails (its first output file name is taken); the task must keep
    /// ticking and the merge must succeed at the next tick
    pub fail_first_merge: bool,
    /// the n-th fsync issued by the interval-sync task fails with EIO (0: none)
    pub fail_sync_nth: usize,
    /// the trigger is crossed AGAIN right after the merge of tick k (and once more a tick later):
    /// merges are expected at ticks k, k+1 and k+2
    pub recross: bool,
    /// at tick k another thread is in the middle of a set (its write to the active file takes a
    /// while, it holds the writer lock): the merge of that tick waits for it and runs
    pub writer_busy: bool,
}

impl C18Case {
    fn to_json(&self) -> Value {
        json!({"engine": "vtime", "kind": "c18", "policy": format!("{:?}", self.policy), "trigger": format!("{:?}", self.trig), "k": self.k, "interval_ms": self.interval_ms, "jitter": self.jitter, "sync": match self.sync { SyncS::None => json!("none"), SyncS::Always => json!("always"), SyncS::Interval(d) => json!(d) }, "horizon": self.horizon, "fail_first_merge": self.fail_first_merge, "fail_sync_nth": self.fail_sync_nth, "recross": self.recross, "writer_busy": self.writer_busy})
    }
    fn from_json(v: &Value) -> Option<C18Case> {
        Some(C18Case {
            policy: match v["policy"].as_str()? {
                "Never" => Policy::Never,
                "Always" => Policy::Always,
                "WindowIn" => Policy::WindowIn,
                p if p.starts_with("Window(") => {
                    let t: Vec<i8> = p.trim_start_matches("Window(").trim_end_matches(')').split(',').filter_map(|x| x.trim().parse().ok()).collect();
                    Policy::Window(*t.first()?, *t.get(1)?)
                }
                _ => Policy::WindowOut,
            },
            trig: match v["trigger"].as_str()? { "None" => Trig::None, "DeadBytes" => Trig::DeadBytes, "Frag" => Trig::Frag, "DeadEq" => Trig::DeadEq, "FragEq" => Trig::FragEq, "ZeroNoDead" => Trig::ZeroNoDead, _ => Trig::Both },
            k: v["k"].as_u64()? as usize,
            interval_ms: v["interval_ms"].as_u64()?,
            jitter: v["jitter"].as_f64()?,
            sync: match &v["sync"] { Value::String(s) if s == "always" => SyncS::Always, Value::Number(n) => SyncS::Interval(n.as_u64()?), _ => SyncS::None },
            horizon: v["horizon"].as_u64()? as usize,
            fail_first_merge: v["fail_first_merge"].as_bool().unwrap_or(false),
            fail_sync_nth: v["fail_sync_nth"].as_u64().unwrap_or(0) as usize,
            recross: v["recross"].as_bool().unwrap_or(false),
            writer_busy: v["writer_busy"].as_bool().unwrap_or(false),
        })
    }
}

const DEAD_TRIGGER: u64 = 40;
const FRAG_TRIGGER: f64 = 0.6;

fn reference_can_merge(stats: &[(u64, u64, u64, u64)], dead_trig: u64, frag_trig: f64) -> bool {
    stats.iter().any(|(_, live, dead, bytes)| {
        let frag = if *dead == 0 { 0.0 } else { *dead as f64 / (*dead + *live) as f64 };
        *bytes > dead_trig || frag > frag_trig
    })
}

type V = (String, String);
fn mach(m: impl Into<String>) -> V {
    ("MACHINERY".into(), m.into())
}

pub fn c18_case(dir: &Path, c: &C18Case) -> Result<String, V> {
    rmrf(dir);
    std::fs::create_dir_all(dir).unwrap();
    let hour0 = chrono::Local::now().hour();
    let mut conf = Config::default();
    conf.path(dir).concurrency(1).merge_check_interval_ms(c.interval_ms).merge_check_jitter(c.jitter);
    conf.merge_threshold_small_file(u64::MAX);
    let (dt, ft) = match c.trig {
        Trig::None | Trig::Both => (DEAD_TRIGGER, FRAG_TRIGGER),
        Trig::DeadBytes => (DEAD_TRIGGER, 1.0),
        Trig::Frag => (u64::MAX, FRAG_TRIGGER),
        // after the initial two writes of k: 27 dead bytes, fragmentation 1/2
        Trig::DeadEq => (27, 1.0),
        Trig::FragEq => (u64::MAX, 0.5),
        Trig::ZeroNoDead => (0, 1.0),
    };
    conf.merge_trigger_dead_bytes(dt).merge_trigger_fragmentation(ft);
    conf.merge_policy(match c.policy {
        Policy::Never => VerifMergePolicy::Never,
        Policy::Always => VerifMergePolicy::Always,
        Policy::WindowIn => VerifMergePolicy::Window { start: hour0, end: hour0 },
        Policy::WindowOut => VerifMergePolicy::Window { start: (hour0 + 12) % 24, end: (hour0 + 12) % 24 },
        Policy::Window(a, b) => {
            let (s, e) = if (a, b) == (100, 100) { (0i32, 23i32) } else { (hour0 as i32 + a as i32, hour0 as i32 + b as i32) };
            if s < 0 || e > 23 || s > e {
                return Ok("window-edge-outside-the-day: skipped".into());
            }
            VerifMergePolicy::Window { start: s as u32, end: e as u32 }
        }
    });
    // is the current hour inside the configured window (both edges belong to it)?
    let in_window = match c.policy {
        Policy::Window(100, 100) => true,
        Policy::Window(a, b) => a <= 0 && 0 <= b,
        Policy::WindowOut => false,
        _ => true,
    };
    conf.sync(match c.sync {
        SyncS::None => SyncStrategy::None,
        SyncS::Always => SyncStrategy::Always,
        SyncS::Interval(d) => SyncStrategy::IntervalMs(d),
    });
    iohook::vtime_enable(true);
    ctl_reset(vec!["bg:merge:tick"], None);
    iohook::grec_start(&dir.to_string_lossy(), true);
    let t_real = Instant::now();
    iohook::fail_nth_fsync(c.fail_sync_nth);
    let kv = conf.open().map_err(|e| mach(format!("open: {}", e)))?;
    let h = kv.get_handle();
    let res = (|| -> Result<String, V> {
        // some data below every trigger: one live key, one overwrite (27 dead bytes, fragmentation 0.5)
        h.set(b("k"), b("v")).map_err(|e| mach(e.to_string()))?;
        if c.trig == Trig::ZeroNoDead {
            h.set(b("j"), b("v")).map_err(|e| mach(e.to_string()))?;
        } else {
            h.set(b("k"), b("v")).map_err(|e| mach(e.to_string()))?;
        }
        let allowed = matches!(c.policy, Policy::Always | Policy::WindowIn) || (matches!(c.policy, Policy::Window(..)) && in_window);
        let mut tick_times: Vec<i64> = vec![];
        let mut merges_seen_at: Vec<usize> = vec![];
        let mut expected_at: Vec<usize> = vec![];
        if c.policy == Policy::Never {
            // the merge task returns at once: there are no ticks; let virtual time run over the horizon
            let horizon_ms = (c.interval_ms as f64 * (1.0 + c.jitter) * c.horizon as f64) as i64 + 10;
            // cross the triggers right away
            h.set(b("k"), b("v")).map_err(|e| mach(e.to_string()))?;
            h.set(b("k"), b("v")).map_err(|e| mach(e.to_string()))?;
            // with no timers (sync none/always) nothing advances virtual time: that alone shows no task is ticking
            let t0 = Instant::now();
            while iohook::vnow_ms() < horizon_ms && t0.elapsed() < Duration::from_millis(if matches!(c.sync, SyncS::Interval(_)) { 400 } else { 30 }) {
                std::thread::sleep(Duration::from_millis(1));
            }
            if let SyncS::Interval(d) = c.sync {
                // nothing else drives virtual time here: the sync task alone must keep going
                let want = c.horizon;
                let t0 = Instant::now();
                loop {
                    let n = iohook::grec_snapshot().iter().filter(|x| matches!(x, Call::Fsync { path } if path.ends_with(".data"))).count();
                    if n >= want {
                        break;
                    }
                    if t0.elapsed() > Duration::from_secs(5) {
                        return Err(("interval-sync-stops".into(), format!("{} fsyncs of a data file within 5 s real time with a sync interval of {} ms in virtual time (now {} ms); at least {} expected", n, d, iohook::vnow_ms(), want)));
                    }
                    std::thread::sleep(Duration::from_millis(1));
                }
            }
            if c.fail_sync_nth > 0 {
                // the failed fsync must be followed by a successful one (in virtual time the next
                // interval is a moment away, however long it is)
                let t0 = Instant::now();
                loop {
                    let log = iohook::grec_snapshot();
                    let failed_at = log.iter().position(|x| matches!(x, Call::Mark(m) if m.starts_with("fsync-failed:")));
                    if let Some(i) = failed_at {
                        if log[i..].iter().any(|x| matches!(x, Call::Fsync { path } if path.ends_with(".data"))) {
                            break;
                        }
                    }
                    if t0.elapsed() > Duration::from_secs(5) {
                        return Err(match failed_at {
                            Some(_) => ("interval-sync-stops-after-a-failed-fsync".into(), format!("fsync number {} of the interval sync failed (EIO); no further fsync within 5 s real time (virtual now {} ms, interval {:?})", c.fail_sync_nth, iohook::vnow_ms(), c.sync)),
                            None => ("interval-sync-never-syncs".into(), format!("fewer than {} fsyncs within 5 s real time (virtual now {} ms)", c.fail_sync_nth, iohook::vnow_ms())),
                        });
                    }
                    std::thread::sleep(Duration::from_millis(1));
                }
            }
        } else {
            for tick in 1..=c.horizon {
                let Some(at) = wait_held(Duration::from_secs(10)) else {
                    return Err(("merge-task-stopped-ticking".into(), format!("tick {} of the merge task did not arrive within 10 s real time (virtual now {} ms)", tick, iohook::vnow_ms())));
                };
                if at != "bg:merge:tick" {
                    return Err(mach(format!("held at {}", at)));
                }
                tick_times.push(iohook::vnow_ms());
                if (tick == c.k || (c.recross && (tick == c.k + 1 || tick == c.k + 2))) && matches!(c.trig, Trig::DeadBytes | Trig::Frag | Trig::Both) {
                    // cross the trigger now: two more overwrites -> 81 dead bytes, fragmentation 0.75
                    h.set(b("k"), b("v")).map_err(|e| mach(e.to_string()))?;
                    h.set(b("k"), b("v")).map_err(|e| mach(e.to_string()))?;
                }
                // the implementation's predicate equals the reference predicate on the counters
                let dump = h.verif_dump();
                let refp = reference_can_merge(&dump.stats, dt, ft);
                let window_ok = in_window;
                let implp = h.verif_can_merge();
                if implp != (refp && window_ok) {
                    return Err(("trigger-predicate-differs-from-reference".into(), format!("tick {}: can_merge() = {}, reference on counters {:?} with triggers dead_bytes>{} fragmentation>{} = {} (window ok: {})", tick, implp, dump.stats, dt, ft, refp, window_ok)));
                }
                if refp && allowed {
                    expected_at.push(tick);
                }
                let hints_before = iohook::grec_snapshot().iter().filter(|x| matches!(x, Call::Create { path, .. } if path.ends_with(".hint"))).count();
                if c.fail_first_merge && tick == c.k && refp && allowed {
                    // take the name of the merge's first output file: the merge fails with EEXIST
                    let blocker = dir.join(format!("{}.bitcask.data", dump.active_fileid + 1));
                    std::fs::write(&blocker, b"").map_err(|e| mach(e.to_string()))?;
                    let go_before = events().iter().filter(|e| e.0 == "bg:merge:go").count();
                    release_one();
                    let t0 = Instant::now();
                    while events().iter().filter(|e| e.0 == "bg:merge:go").count() == go_before || iohook::vtime_busy_now() > 0 {
                        if t0.elapsed() > Duration::from_secs(6) {
                            return Err(("merge-does-not-run-when-triggered".into(), format!("tick {}: no merge attempt within 6 s", tick)));
                        }
                        std::thread::sleep(Duration::from_micros(200));
                    }
                    std::thread::sleep(Duration::from_millis(1));
                    let _ = std::fs::remove_file(&blocker);
                    merges_seen_at.push(tick);
                    continue;
                }
                let mut busy_user: Option<std::thread::JoinHandle<Result<(), String>>> = None;
                if c.writer_busy && tick == c.k && refp && allowed {
                    let h2 = h.clone();
                    iohook::stall_reset();
                    busy_user = Some(
                        std::thread::Builder::new()
                            .name("vh-user-op".into())
                            .spawn(move || {
                                iohook::stall_next_write_on_this_thread();
                                h2.set(b("u"), b("v")).map_err(|e| e.to_string())
                            })
                            .unwrap(),
                    );
                    let t0 = Instant::now();
                    while !iohook::stall_reached() {
                        if t0.elapsed() > Duration::from_secs(6) {
                            return Err(mach("the client's set did not reach its write"));
                        }
                        std::thread::sleep(Duration::from_micros(100));
                    }
                }
                let go_before = events().iter().filter(|e| e.0 == "bg:merge:go").count();
                release_one();
                if let Some(u) = busy_user {
                    // the tick is evaluated while the writer lock is held; then the set completes
                    let t0 = Instant::now();
                    while events().iter().filter(|e| e.0 == "bg:merge:go").count() == go_before && t0.elapsed() < Duration::from_millis(300) {
                        std::thread::sleep(Duration::from_micros(200));
                    }
                    std::thread::sleep(Duration::from_millis(2));
                    iohook::stall_release();
                    match u.join() {
                        Ok(Ok(())) => {}
                        Ok(Err(e)) => return Err(mach(format!("the client's set failed: {}", e))),
                        Err(_) => return Err(("client-set-panics".into(), "a set that was in progress at a merge tick panicked".into())),
                    }
                }
                if refp && allowed {
                    // the merge must start now: wait for its hint file
                    let t0 = Instant::now();
                    loop {
                        let n = iohook::grec_snapshot().iter().filter(|x| matches!(x, Call::Create { path, .. } if path.ends_with(".hint"))).count();
                        if n > hints_before {
                            merges_seen_at.push(tick);
                            break;
                        }
                        if t0.elapsed() > Duration::from_secs(6) {
                            return Err(("merge-does-not-run-when-triggered".into(), format!("tick {}: the trigger is exceeded (counters {:?}) and the policy allows merging, but no merge started within 6 s", tick, dump.stats)));
                        }
                        std::thread::sleep(Duration::from_micros(200));
                    }
                }
            }
            // hold at the tick after the horizon so that everything before it is complete
            let _ = wait_held(Duration::from_secs(10));
        }
        let log = iohook::grec_snapshot();
        // merges observed = hint creations grouped by the tick they follow
        let hint_creates = log.iter().filter(|x| matches!(x, Call::Create { path, .. } if path.ends_with(".hint"))).count();
        let go_events = events().iter().filter(|e| e.0 == "bg:merge:go").count();
        if expected_at.is_empty() && (hint_creates > 0 || go_events > 0) {
            return Err(("merge-ran-without-trigger-or-against-policy".into(), format!("policy {:?}, trigger crossing {:?}: {} merge(s) started ({} hint files created)", c.policy, c.trig, go_events, hint_creates)));
        }
        if go_events != expected_at.len() {
            return Err(("wrong-number-of-merges".into(), format!("merges started {} (ticks {:?}), expected at ticks {:?}", go_events, merges_seen_at, expected_at)));
        }
        // tick spacing within interval * (1 +- jitter)
        let lo = c.interval_ms as f64 * (1.0 - c.jitter);
        let hi = c.interval_ms as f64 * (1.0 + c.jitter);
        // measured on the worker's own clock (real elapsed + virtual offset): a sleep can never be
        // shorter than asked (2 ms timer granularity); above, 1 % + real time spent at the gates, in a
        // merge, or waiting for a CPU on a loaded machine
        let slack = 0.01 * c.interval_ms as f64 + 500.0;
        let mut prev = 0i64;
        for (i, t) in tick_times.iter().enumerate() {
            let d = (*t - prev) as f64;
            if d < lo - 2.0 || d > hi + slack {
                return Err(("tick-spacing-outside-interval-plus-minus-jitter".into(), format!("tick {} came {} ms (virtual) after the previous one; allowed [{:.0}, {:.0}] +- slack; ticks at {:?}", i + 1, d, lo, hi, tick_times)));
            }
            prev = *t;
        }
        // interval sync: consecutive fsyncs of the active file at most one interval (+ slack) apart
        let mut sync_note = String::new();
        if let SyncS::Interval(d) = c.sync {
            let mut vt = 0i64;
            let mut fsyncs: Vec<i64> = vec![];
            let mut failed_syncs = 0usize;
            for x in &log {
                match x {
                    Call::Mark(m) => {
                        if let Some(t) = m.strip_prefix("vt:") {
                            vt = t.parse().unwrap_or(vt);
                        }
                    }
                    Call::Fsync { path } if path.ends_with(".data") => fsyncs.push(vt),
                    _ => {}
                }
                // a failed attempt shows that the task kept its schedule at that moment
                if let Call::Mark(m) = x {
                    if m.starts_with("fsync-failed:") {
                        fsyncs.push(vt);
                        failed_syncs += 1;
                    }
                }
            }
            let end = iohook::vnow_ms();
            let mut last = 0i64;
            let slack = 0.01 * d as f64 + 500.0;
            for t in fsyncs.iter().chain(std::iter::once(&end)) {
                if (*t - last) as f64 > d as f64 + slack {
                    return Err(("interval-sync-gap-too-long".into(), format!("no fsync of a data file between virtual {} ms and {} ms although sync interval is {} ms; fsyncs at {:?}", last, t, d, &fsyncs[fsyncs.len().saturating_sub(14)..])));
                }
                last = *t;
            }
            if end as f64 > d as f64 + slack && fsyncs.is_empty() {
                return Err(("interval-sync-never-syncs".into(), format!("virtual {} ms elapsed, no fsync", end)));
            }
            if c.fail_sync_nth > 0 && failed_syncs == 0 && fsyncs.len() >= c.fail_sync_nth {
                return Err(mach(format!("the {}-th fsync was to fail but {} went through", c.fail_sync_nth, fsyncs.len())));
            }
            sync_note = format!(" fsyncs={}", fsyncs.len().min(99));
        }
        Ok(format!("{:?}/{:?} merges={}{}", c.policy, c.trig, go_events, if sync_note.is_empty() { "" } else { " sync" }))
    })();
    // tear down: no more holds, drop the store, the worker must go away
    ctl_disable();
    iohook::fail_nth_fsync(0);
    drop(h);
    drop(kv);
    let gone = wait_bg_gone(Duration::from_secs(5));
    let after_drop_len = iohook::grec_snapshot().len();
    std::thread::sleep(Duration::from_millis(2));
    let log = iohook::grec_stop();
    iohook::vtime_enable(false);
    let _ = t_real;
    let hour1 = chrono::Local::now().hour();
    if hour1 != hour0 {
        return Err(mach("the wall-clock hour changed during the case"));
    }
    let o = res?;
    if gone.is_none() {
        return Err(("worker-thread-still-alive-after-drop".into(), "the background thread did not exit within 5 s after the store was dropped".into()));
    }
    if log.len() > after_drop_len && log[after_drop_len..].iter().any(|c| matches!(c, Call::Fsync { .. })) {
        return Err(("sync-continues-after-drop".into(), "an fsync was issued after the store was dropped and its worker had exited".into()));
    }
    Ok(o)
}

fn c18_cases(tier: Tier) -> Vec<C18Case> {
    let mut v = vec![];
    let horizon = tier.pick(5, 10);
    let intervals: Vec<u64> = vec![1, 1000, 18_000, 180_000, 3_600_000];
    let jitters = [0.0, 0.3, 1.0];
    for policy in [Policy::Never, Policy::Always, Policy::WindowIn, Policy::WindowOut] {
        for trig in [Trig::None, Trig::DeadBytes, Trig::Frag, Trig::Both, Trig::DeadEq, Trig::FragEq, Trig::ZeroNoDead] {
            let ks: Vec<usize> = if matches!(trig, Trig::None | Trig::DeadEq | Trig::FragEq | Trig::ZeroNoDead) || policy == Policy::Never { vec![1] } else { vec![1, 2, 3] };
            for k in ks {
                for &interval_ms in &intervals {
                    for jitter in jitters {
                        let mut syncs = vec![SyncS::None, SyncS::Always];
                        // an interval sync about a third of the merge interval (never below 1 ms)
                        syncs.push(SyncS::Interval((interval_ms / 3).max(1)));
                        if interval_ms >= 1000 && tier == Tier::Thorough {
                            syncs.push(SyncS::Interval(interval_ms * 2));
                        }
                        for sync in syncs {
                            if policy == Policy::Never && jitter != 0.3 {
                                continue;
                            }
                            v.push(C18Case { policy, trig, k, interval_ms, jitter, sync, horizon, fail_first_merge: false, fail_sync_nth: 0, recross: false, writer_busy: false });
                        }
                    }
                }
            }
        }
    }
    // window edges: the current hour is the first / the last / an inner hour of the window, the hour
    // before it, the hour after it; the whole day
    for (a, b) in [(0i8, 1i8), (-1, 0), (-1, 1), (0, 0), (1, 2), (-2, -1), (1, 1), (-1, -1), (100, 100)] {
        for trig in [Trig::DeadBytes, Trig::None] {
            v.push(C18Case { policy: Policy::Window(a, b), trig, k: 1, interval_ms: 1000, jitter: 0.0, sync: SyncS::None, horizon, fail_first_merge: false, fail_sync_nth: 0, recross: false, writer_busy: false });
        }
    }
    // a merge that fails must not end the periodic task: the next tick merges
    for k in [1usize, 2] {
        for interval_ms in [1000u64, 180_000] {
            for trig in [Trig::DeadBytes, Trig::Frag] {
                for sync in [SyncS::None, SyncS::Interval(interval_ms / 3)] {
                    v.push(C18Case { policy: Policy::Always, trig, k, interval_ms, jitter: 0.3, sync, horizon, fail_first_merge: true, fail_sync_nth: 0, recross: false, writer_busy: false });
                }
            }
        }
    }
    // the trigger is crossed again right after a merge: every tick from k to k+2 must merge
    for k in [1usize, 2] {
        for interval_ms in [1000u64, 180_000] {
            for jitter in [0.0, 0.1, 0.3, 1.0] {
                for trig in [Trig::DeadBytes, Trig::Frag] {
                    v.push(C18Case { policy: Policy::Always, trig, k, interval_ms, jitter, sync: SyncS::None, horizon, fail_first_merge: false, fail_sync_nth: 0, recross: true, writer_busy: false });
                }
            }
        }
    }
    // a client's set is in progress (inside the writer lock) when the tick comes: the merge waits
    // for the lock and runs at THIS tick
    for k in [1usize, 2] {
        for interval_ms in [1000u64, 180_000] {
            for jitter in [0.0, 0.3] {
                for trig in [Trig::DeadBytes, Trig::Frag] {
                    for sync in [SyncS::None, SyncS::Always] {
                        v.push(C18Case { policy: Policy::Always, trig, k, interval_ms, jitter, sync, horizon, fail_first_merge: false, fail_sync_nth: 0, recross: false, writer_busy: true });
                    }
                }
            }
        }
    }
    // sync strategies on their own (merge never): interval 1 ms, 500 ms, 10 min
    for d in [1u64, 500, 600_000] {
        v.push(C18Case { policy: Policy::Never, trig: Trig::None, k: 1, interval_ms: d * 4, jitter: 0.0, sync: SyncS::Interval(d), horizon: tier.pick(5, 10), fail_first_merge: false, fail_sync_nth: 0, recross: false, writer_busy: false });
        // a background fsync that fails must not end the periodic sync: the next interval syncs again
        for nth in [1usize, 2, 3] {
            v.push(C18Case { policy: Policy::Never, trig: Trig::None, k: 1, interval_ms: d * 4, jitter: 0.0, sync: SyncS::Interval(d), horizon: tier.pick(5, 10), fail_first_merge: false, fail_sync_nth: nth, recross: false, writer_busy: false });
        }
    }
    v
}

// ---------------------------------------------------------------------------------------------
// C17

#[derive(Clone, Debug)]
pub struct C17Case {
    /// "sleeping" | "bg:merge:tick" | "bg:merge:go" | "bg:sync:tick" | "inner"
    pub at: String,
    /// which inner point (1-based) for at == "inner"
    pub inner: usize,
    /// before which tick (1-based) the drop happens
    pub tick: usize,
    /// worker configuration: merge trigger met?
    pub trigger_met: bool,
    pub merge_never: bool,
    pub sync_interval: bool,
    pub cycles: usize,
    /// every file-system call the DROP itself issues (on the dropping thread) fails with EIO
    pub drop_fault: bool,
    /// merge policy: 0 always, 1 a window that contains the current hour, 2 a window that does not
    pub window: u8,
    /// the owner is dropped by a panic that unwinds through its scope (`thread::panicking()` is
    /// true inside the drop), not by an ordinary drop
    pub unwinding: bool,
}
impl C17Case {
    fn to_json(&self) -> Value {
        json!({"engine": "vtime", "kind": "c17", "at": self.at, "inner": self.inner, "tick": self.tick, "trigger_met": self.trigger_met, "merge_never": self.merge_never, "sync_interval": self.sync_interval, "cycles": self.cycles, "drop_fault": self.drop_fault, "window": self.window, "unwinding": self.unwinding})
    }
    fn from_json(v: &Value) -> Option<C17Case> {
        Some(C17Case { at: v["at"].as_str()?.to_string(), inner: v["inner"].as_u64()? as usize, tick: v["tick"].as_u64()? as usize, trigger_met: v["trigger_met"].as_bool()?, merge_never: v["merge_never"].as_bool()?, sync_interval: v["sync_interval"].as_bool()?, cycles: v["cycles"].as_u64()? as usize, drop_fault: v["drop_fault"].as_bool().unwrap_or(false), window: v["window"].as_u64().unwrap_or(0) as u8, unwinding: v["unwinding"].as_bool().unwrap_or(false) })
    }
}

fn c17_conf(dir: &Path, c: &C17Case, cache: usize) -> Config {
    let mut conf = Config::default();
    conf.path(dir).concurrency(1).readers_cache_size(cache).merge_check_interval_ms(3_600_000).merge_check_jitter(0.0).max_file_size(60);
    conf.merge_threshold_small_file(u64::MAX);
    conf.merge_trigger_dead_bytes(if c.trigger_met { 0 } else { u64::MAX }).merge_trigger_fragmentation(1.0);
    if c.merge_never {
        conf.merge_policy(VerifMergePolicy::Never);
    } else if c.window > 0 {
        let h = chrono::Local::now().hour();
        let w = if c.window == 1 { h } else { (h + 12) % 24 };
        conf.merge_policy(VerifMergePolicy::Window { start: w, end: w });
    }
    if c.sync_interval {
        conf.sync(SyncStrategy::IntervalMs(1_300_000));
    }
    conf
}

fn read_model(h: &bitcask::storage::bitcask::Handle, keys: &[&str]) -> Result<Kv, String> {
    let mut m = Kv::new();
    for k in keys {
        match std::panic::catch_unwind(std::panic::AssertUnwindSafe(|| h.get(b(k)))) {
            Ok(Ok(Some(v))) => {
                m.insert(k.as_bytes().to_vec(), v.to_vec());
            }
            Ok(Ok(None)) => {}
            Ok(Err(e)) => return Err(format!("get({}) -> Err({})", k, e)),
            Err(_) => return Err(format!("get({}) panicked", k)),
        }
    }
    Ok(m)
}

pub fn c17_case(dir: &Path, c: &C17Case) -> Result<String, V> {
    rmrf(dir);
    std::fs::create_dir_all(dir).unwrap();
    let keys = ["k", "j", "n"];
    iohook::vtime_enable(true);
    let hold_labels: Vec<&'static str> = match c.at.as_str() {
        "bg:merge:tick" => vec!["bg:merge:tick"],
        "bg:merge:go" => vec!["bg:merge:go"],
        "bg:sync:tick" => vec!["bg:sync:tick"],
        _ => vec![],
    };
    // ticks before the chosen one pass freely: hold only from the chosen tick on
    ctl_reset(vec![], None);
    iohook::grec_start(&dir.to_string_lossy(), false);
    let threads0 = thread_count();
    let conf = c17_conf(dir, c, 4);
    // virtual time may not pass the chosen tick while the store is being filled
    iohook::vtime_hold(true);
    let kv = conf.clone().open().map_err(|e| mach(format!("open: {}", e)))?;
    let h = kv.get_handle();
    let mut model = Kv::new();
    let res = (|| -> Result<String, V> {
        for (k, v) in [("k", "v1"), ("k", "v2"), ("j", "w")] {
            h.set(b(k), b(v)).map_err(|e| mach(e.to_string()))?;
            model.insert(k.as_bytes().to_vec(), v.as_bytes().to_vec());
        }
        // let virtual time run up to half a period before the chosen tick: the first `tick - 1`
        // ticks pass (each may merge / sync), then the worker sleeps with its timer far away
        let sync_gate = c.at == "bg:sync:tick" || (c.at == "inner" && c.sync_interval && (c.merge_never || !c.trigger_met));
        let period: i64 = if sync_gate { 1_300_000 } else { 3_600_000 };
        let limit = (c.tick as i64 - 1) * period + period / 2;
        iohook::vtime_limit_ms(Some(limit));
        iohook::vtime_hold(false);
        let has_timers = !c.merge_never || c.sync_interval;
        if has_timers {
            let t0 = Instant::now();
            while iohook::vnow_ms() < limit {
                if t0.elapsed() > Duration::from_secs(10) {
                    return Err(mach(format!("virtual time stuck at {} ms below the limit {} ms", iohook::vnow_ms(), limit)));
                }
                std::thread::sleep(Duration::from_micros(200));
            }
            std::thread::sleep(Duration::from_millis(2));
        }
        if c.trigger_met {
            // earlier ticks merged: create dead bytes again so that the chosen tick merges, too
            for v in ["v3", "v4"] {
                h.set(b("k"), b(v)).map_err(|e| mach(e.to_string()))?;
                model.insert(b"k".to_vec(), v.as_bytes().to_vec());
            }
        }
        let mut held: Option<String> = None;
        let mut user: Option<std::thread::JoinHandle<Result<(), String>>> = None;
        if c.at.starts_with("user:") {
            // an operation of ANOTHER thread is in flight when the owner is dropped: it is held at
            // its n-th hook point (pool pop, KeyDir access, writer lock, pool push ...)
            set_holds(vec![], Some(inner_seen() + c.inner));
            let h2 = h.clone();
            let op = c.at[5..].to_string();
            user = Some(
                std::thread::Builder::new()
                    .name("vh-user-op".into())
                    .spawn(move || match op.as_str() {
                        "get" => h2.get(b("k")).map(|_| ()).map_err(|e| e.to_string()),
                        "set" => h2.set(b("k"), b("v9")).map_err(|e| e.to_string()),
                        _ => h2.del(b("j")).map(|_| ()).map_err(|e| e.to_string()),
                    })
                    .unwrap(),
            );
            match wait_held(Duration::from_millis(1500)) {
                Some(x) => held = Some(x),
                None => {
                    let _ = user.take().unwrap().join();
                    return Ok("gate-position-not-reached".into());
                }
            }
        } else if c.at == "sleeping" {
            // the worker sleeps with its next timer half a period (virtual) away
            std::thread::sleep(Duration::from_millis(1));
        } else {
            set_holds(hold_labels.clone(), if c.at == "inner" { Some(inner_seen() + c.inner) } else { None });
            iohook::vtime_limit_ms(None);
            match wait_held(Duration::from_millis(1500)) {
                Some(x) => held = Some(x),
                None => {
                    // this gate position does not exist in this configuration (e.g. fewer inner points)
                    return Ok("gate-position-not-reached".into());
                }
            }
        }
        let log_len_before_drop = iohook::grec_snapshot().len();
        // drop the store on its own thread: a drop that waits for an in-flight operation is legal,
        // everything below is relative to the moment the drop RETURNED
        let dropped = std::sync::Arc::new(AtomicBool::new(false));
        let d2 = dropped.clone();
        let drop_fault = c.drop_fault;
        let unwinding = c.unwinding;
        let dropper = std::thread::spawn(move || {
            if drop_fault {
                iohook::fail_all_on_this_thread(Some(libc::EIO));
            }
            if unwinding {
                // the owner goes down with a panic (no message: the hook is not run)
                let _ = std::panic::catch_unwind(std::panic::AssertUnwindSafe(move || {
                    let _owner = kv;
                    std::panic::resume_unwind(Box::new("the owner of the store panics"));
                }));
            } else {
                drop(kv);
            }
            iohook::fail_all_on_this_thread(None);
            d2.store(true, Ordering::SeqCst);
        });
        let t0 = Instant::now();
        while !dropped.load(Ordering::SeqCst) && t0.elapsed() < Duration::from_millis(30) {
            std::thread::sleep(Duration::from_micros(100));
        }
        let drop_waited = !dropped.load(Ordering::SeqCst);
        let mut reopened_early: Option<(bitcask::storage::bitcask::Bitcask, bitcask::storage::bitcask::Handle)> = None;
        let mut blocked_probe: Option<std::thread::JoinHandle<Result<(), V>>> = None;
        let mut log_len_at_drop = iohook::grec_snapshot().len();
        if !drop_waited {
            // the drop returned while the worker is still held (or asleep): handles are closed now.
            // (On a thread of its own: a store whose drop did not wait may keep these calls waiting
            // for the operation that is still held; what that operation then does to the directory
            // is judged below.)
            let h4 = h.clone();
            let probe = std::thread::spawn(move || -> Result<(), V> {
                for (what, r) in [("set", h4.set(b("x"), b("y")).map(|_| ()).map_err(|e| e.to_string())), ("get", h4.get(b("k")).map(|_| ()).map_err(|e| e.to_string())), ("del", h4.del(b("k")).map(|_| ()).map_err(|e| e.to_string())), ("merge", h4.verif_merge().map_err(|e| e.to_string())), ("sync", h4.verif_sync().map_err(|e| e.to_string()))] {
                    match r {
                        Err(e) if e.contains("closed") => {}
                        other => return Err(("operation-on-a-closed-store-not-rejected".into(), format!("{} through a retained handle after the drop returned: {:?}", what, other))),
                    }
                }
                Ok(())
            });
            let t0 = Instant::now();
            while !probe.is_finished() && t0.elapsed() < Duration::from_secs(2) {
                std::thread::sleep(Duration::from_micros(200));
            }
            if probe.is_finished() {
                probe.join().map_err(|_| ("operation-on-a-closed-store-panics".to_string(), "an operation through a retained handle panicked after the drop".to_string()))??;
            } else {
                blocked_probe = Some(probe);
            }
            log_len_at_drop = iohook::grec_snapshot().len();
            // "the directory can be opened again at once"
            let conf2 = c17_conf(dir, c, 0);
            let mut c2 = conf2.clone();
            c2.merge_policy(VerifMergePolicy::Never);
            c2.sync(SyncStrategy::None);
            match c2.open() {
                Ok(kv2) => {
                    let h2 = kv2.get_handle();
                    match read_model(&h2, &keys) {
                        Ok(m) if m == model => {}
                        Ok(m) => return Err(("reopened-store-reads-wrongly".into(), format!("right after the drop: {:?}, expected {:?}", m, model))),
                        Err(e) => return Err(("reopened-store-reads-wrongly".into(), format!("right after the drop: {}", e))),
                    }
                    h2.set(b("n"), b("new")).map_err(|e| ("reopened-store-reads-wrongly".to_string(), format!("set on the re-opened store: {}", e)))?;
                    model.insert(b"n".to_vec(), b"new".to_vec());
                    reopened_early = Some((kv2, h2));
                }
                Err(e) => return Err(("directory-cannot-be-reopened-at-once".into(), format!("open right after the drop: {}", e))),
            }
        }
        // release whatever is held; the old instance's in-flight operation runs to completion
        let t_release = Instant::now();
        ctl_disable();
        iohook::vtime_hold(false);
        iohook::vtime_limit_ms(None);
        let _ = dropper.join();
        if let Some(p) = blocked_probe.take() {
            // the calls that were kept waiting go on now
            let t0 = Instant::now();
            while !p.is_finished() && t0.elapsed() < Duration::from_secs(6) {
                std::thread::sleep(Duration::from_micros(200));
            }
            if !p.is_finished() {
                return Err(("operation-on-a-closed-store-does-not-return".into(), format!("operations through a retained handle after the drop returned (held at {:?}) have not returned 6 s after everything was released", held)));
            }
            p.join().map_err(|_| ("operation-on-a-closed-store-panics".to_string(), "an operation through a retained handle panicked after the drop".to_string()))??;
        }
        if let Some(u) = user.take() {
            // the operation that was in flight: it returns its result or "closed", it does not panic
            match u.join() {
                Err(_) => return Err(("operation-in-flight-at-the-drop-panics".into(), format!("{} held at {:?} while the store was dropped panicked when it went on", c.at, held))),
                Ok(Ok(())) => match &c.at[5..] {
                    "set" => {
                        model.insert(b"k".to_vec(), b"v9".to_vec());
                    }
                    "del" => {
                        model.remove(&b"j"[..]);
                    }
                    _ => {}
                },
                Ok(Err(e)) if e.contains("closed") => {}
                Ok(Err(e)) => return Err(("operation-in-flight-at-the-drop-fails".into(), format!("{} held at {:?} while the store was dropped returned {}", c.at, held, e))),
            }
        }
        if drop_waited {
            log_len_at_drop = iohook::grec_snapshot().len();
            for (what, r) in [("set", h.set(b("x"), b("y")).map(|_| ()).map_err(|e| e.to_string())), ("get", h.get(b("k")).map(|_| ()).map_err(|e| e.to_string())), ("del", h.del(b("k")).map(|_| ()).map_err(|e| e.to_string())), ("merge", h.verif_merge().map_err(|e| e.to_string())), ("sync", h.verif_sync().map_err(|e| e.to_string()))] {
                match r {
                    Err(e) if e.contains("closed") => {}
                    other => return Err(("operation-on-a-closed-store-not-rejected".into(), format!("{} through a retained handle after the drop returned: {:?}", what, other))),
                }
            }
        }
        // the worker exits promptly although its next timer is an hour away
        let Some(took) = wait_bg_gone_excluding(reopened_early.is_some(), Duration::from_secs(2)) else {
            return Err(("worker-thread-does-not-exit".into(), format!("the background thread is still alive 2 s after the drop (held at {:?}, released {:?} ago)", held, t_release.elapsed())));
        };
        std::thread::sleep(Duration::from_millis(3));
        // no change on disk by the old instance after its drop returned
        let log = iohook::grec_snapshot();
        let late: Vec<String> = log[log_len_at_drop.min(log.len())..].iter().filter(|x| x.is_mutating()).map(|x| x.short()).collect();
        // the re-opened instance's own calls (creation of its active file, its set) are legitimate: they
        // are issued by this thread synchronously before log_len is sampled again below
        let own: usize = if reopened_early.is_some() { 2 } else { 0 };
        let _ = log_len_before_drop;
        if late.len() > own {
            return Err(("old-instance-changes-the-directory-after-drop".into(), format!("held at {:?}; mutating calls after the drop returned (the first {} belong to the re-opened store): {:?}", held, own, late)));
        }
        // the re-opened store still answers correctly after the old operation has completed
        if let Some((kv2, h2)) = reopened_early.take() {
            match read_model(&h2, &keys) {
                Ok(m) if m == model => {}
                Ok(m) => return Err(("reopened-store-reads-wrongly".into(), format!("after the old instance's operation completed: {:?}, expected {:?}", m, model))),
                Err(e) => return Err(("reopened-store-reads-wrongly".into(), format!("after the old instance's operation completed: {}", e))),
            }
            drop(h2);
            drop(kv2);
        }
        // a further close / re-open still works and reads the same
        let mut c3 = c17_conf(dir, c, 0);
        c3.merge_policy(VerifMergePolicy::Never);
        c3.sync(SyncStrategy::None);
        match c3.open() {
            Ok(kv3) => {
                let h3 = kv3.get_handle();
                match read_model(&h3, &keys) {
                    Ok(m) if m == model => {}
                    Ok(m) => return Err(("reopened-store-reads-wrongly".into(), format!("after a further re-open: {:?}, expected {:?}", m, model))),
                    Err(e) => return Err(("reopened-store-reads-wrongly".into(), format!("after a further re-open: {}", e))),
                }
            }
            Err(e) => return Err(("directory-cannot-be-reopened-at-once".into(), format!("further re-open: {}", e))),
        }
        Ok(format!("{}{}{}{} drop_waited={} worker_exit<{}ms", if c.drop_fault { "failing-drop:" } else { "" }, match c.window { 1 => "window-open:", 2 => "window-closed:", _ => "" }, c.at, if c.at == "inner" { format!("#{}", c.inner) } else { String::new() }, drop_waited, took.as_millis() + 1))
    })();
    ctl_disable();
    iohook::vtime_hold(false);
    iohook::vtime_limit_ms(None);
    drop(h);
    let _ = wait_bg_gone(Duration::from_secs(3));
    iohook::grec_stop();
    iohook::vtime_enable(false);
    let o = res?;
    // open / close cycles do not accumulate threads or descriptors
    if c.cycles > 0 {
        let mut base: Option<(usize, usize)> = None;
        for i in 0..c.cycles {
            let mut cc = c17_conf(dir, c, 4);
            cc.merge_check_interval_ms(3_600_000);
            let kv = cc.open().map_err(|e| ("directory-cannot-be-reopened-at-once".to_string(), format!("cycle {}: {}", i, e)))?;
            let hh = kv.get_handle();
            let _ = hh.get(b("k"));
            drop(hh);
            drop(kv);
            if wait_bg_gone(Duration::from_secs(2)).is_none() {
                return Err(("worker-thread-does-not-exit".into(), format!("cycle {}: background thread alive 2 s after the drop", i)));
            }
            // a thread that has just been spawned carries its name only a moment later, and threads /
            // descriptors are released a moment after the named thread is gone: give the counts up
            // to 2 s to come down to the level they had before the first cycle
            let t0 = Instant::now();
            let mut now = (thread_count(), fd_count());
            let target = base.unwrap_or((threads0, usize::MAX));
            while (now.0 > target.0 || now.1 > target.1 || bg_threads_alive() > 0) && t0.elapsed() < Duration::from_secs(2) {
                std::thread::sleep(Duration::from_millis(1));
                now = (thread_count(), fd_count());
            }
            match base {
                None => base = Some(now),
                Some(b0) => {
                    if now.0 > b0.0 || now.1 > b0.1 {
                        return Err(("threads-or-descriptors-accumulate".into(), format!("after cycle {}: {} threads / {} fds (2 s after the drop), after the first cycle {} / {}", i, now.0, now.1, b0.0, b0.1)));
                    }
                }
            }
        }
    }
    Ok(o)
}

fn wait_bg_gone_excluding(_another_instance_open: bool, timeout: Duration) -> Option<Duration> {
    // the re-opened instance runs with merge policy never and no interval sync: its background thread
    // finishes by itself at once, so "no background thread left" still identifies the old worker
    wait_bg_gone(timeout)
}

fn c17_cases(tier: Tier) -> Vec<C17Case> {
    let mut v = vec![];
    let cycles = tier.pick(2, 20);
    for (trigger_met, merge_never) in [(true, false), (false, false), (false, true)] {
        for sync_interval in [false, true] {
            for tick in 1..=3usize {
                let base = C17Case { at: String::new(), inner: 0, tick, trigger_met, merge_never, sync_interval, cycles: 0, drop_fault: false, window: 0, unwinding: false };
                v.push(C17Case { at: "sleeping".into(), cycles: if tick == 1 { cycles } else { 0 }, ..base.clone() });
                // operations of other threads in flight at the drop
                if tick == 1 && !sync_interval && (merge_never || !trigger_met) {
                    for op in ["user:get", "user:set", "user:del"] {
                        for inner in 1..=tier.pick(5, 8) {
                            v.push(C17Case { at: op.into(), inner, ..base.clone() });
                        }
                    }
                }
                // the same drop with every file-system call of the drop itself failing (an error
                // inside drop must not leave the store half closed)
                v.push(C17Case { at: "sleeping".into(), drop_fault: true, ..base.clone() });
                // the merge window (open now / closed now) instead of "always"
                if !merge_never && tick <= 2 {
                    for window in [1u8, 2] {
                        v.push(C17Case { at: "sleeping".into(), window, cycles: if tick == 1 { cycles } else { 0 }, ..base.clone() });
                        v.push(C17Case { at: "bg:merge:tick".into(), window, ..base.clone() });
                    }
                }
                if !merge_never {
                    v.push(C17Case { at: "bg:merge:tick".into(), ..base.clone() });
                    if trigger_met {
                        v.push(C17Case { at: "bg:merge:go".into(), ..base.clone() });
                        // every hook point inside the running background merge
                        for inner in 1..=tier.pick(14, 30) {
                            v.push(C17Case { at: "inner".into(), inner, ..base.clone() });
                        }
                    }
                }
                if sync_interval {
                    v.push(C17Case { at: "bg:sync:tick".into(), ..base.clone() });
                    if merge_never || !trigger_met {
                        // inner points of a background sync
                        for inner in 1..=2 {
                            v.push(C17Case { at: "inner".into(), inner, ..base.clone() });
                        }
                    }
                }
            }
        }
    }
    // every single drop again as a drop by unwinding
    let unwound: Vec<C17Case> = v.iter().filter(|c| c.cycles == 0 && !c.drop_fault).map(|c| C17Case { unwinding: true, ..c.clone() }).collect();
    v.extend(unwound);
    v
}

// ---------------------------------------------------------------------------------------------

pub fn worker(job: &Job) -> Shard {
    let mut sh = Shard::default();
    let t0 = Instant::now();
    let dir = job.scratch().join("store");
    match job.prop.as_str() {
        "C18" => {
            let cases = c18_cases(job.tier);
            let total = cases.len();
            for (i, c) in cases.into_iter().enumerate() {
                if i % job.nshards != job.shard {
                    continue;
                }
                if t0.elapsed().as_secs() > job.deadline_s || sh.viol_counts.values().sum::<u64>() >= 6 {
                    sh.capped = true;
                    sh.notes.insert(format!("stopped (time cap or 6 violations in this shard) after {} of {} configurations", i, total));
                    break;
                }
                let case = c.to_json();
                job.progress(&case);
                sh.evaluations += 1;
                sh.transitions += c.horizon as u64;
                sh.nontrivial.insert(fnv(case.to_string().as_bytes()));
                for t in 0..=c.horizon {
                    sh.states.insert(fnv(format!("{}|{}", case, t).as_bytes()));
                }
                let mut r = c18_case(&dir, &c);
                if matches!(&r, Err((cl, _)) if cl == "MACHINERY") {
                    r = c18_case(&dir, &c);
                }
                match r {
                    Ok(o) => sh.outcome(o),
                    Err((cl, msg)) if cl == "MACHINERY" => sh.machinery_errors.push(format!("C18 {} {}", msg, case)),
                    Err((cl, msg)) => match c18_case(&dir, &c) {
                        Err((c2, _)) if c2 == cl => sh.violate(Violation { class: format!("C18:{}", cl), msg: format!("{} | {}", msg, case), case }),
                        other => sh.machinery_errors.push(format!("C18 violation {} not reproduced ({:?}): {} {}", cl, other.map_err(|e| e.0), msg, case)),
                    },
                }
                if sh.samples.len() < 2 && i % 53 == job.shard {
                    sh.samples.push(c.to_json());
                }
            }
        }
        "C17" => {
            let cases = c17_cases(job.tier);
            let total = cases.len();
            for (i, c) in cases.into_iter().enumerate() {
                if i % job.nshards != job.shard {
                    continue;
                }
                if t0.elapsed().as_secs() > job.deadline_s || sh.viol_counts.values().sum::<u64>() >= 12 {
                    sh.capped = true;
                    sh.notes.insert(format!("stopped (time cap or 12 violations in this shard) after {} of {} cases", i, total));
                    break;
                }
                let case = c.to_json();
                job.progress(&case);
                sh.evaluations += 1;
                sh.transitions += 4 + c.cycles as u64;
                let r = c17_case(&dir, &c);
                match r {
                    Ok(o) => {
                        if o != "gate-position-not-reached" {
                            sh.nontrivial.insert(fnv(case.to_string().as_bytes()));
                            sh.states.insert(fnv(format!("{}|{}|{}|{}|{}", c.at, c.inner, c.trigger_met, c.merge_never, c.sync_interval).as_bytes()));
                        }
                        sh.outcome(o)
                    }
                    Err((cl, msg)) if cl == "MACHINERY" => sh.machinery_errors.push(format!("C17 {} {}", msg, case)),
                    Err((cl, msg)) => match c17_case(&dir, &c) {
                        Err((c2, _)) if c2 == cl => sh.violate(Violation { class: format!("C17:{}", classify17(&cl, &c)), msg: format!("{} | {}", msg, case), case }),
                        other => sh.machinery_errors.push(format!("C17 violation {} not reproduced ({:?}): {} {}", cl, other.map_err(|e| e.0), msg, case)),
                    },
                }
                if sh.samples.len() < 3 && i % 17 == job.shard {
                    sh.samples.push(c.to_json());
                }
            }
        }
        p => panic!("no E6 plan for {}", p),
    }
    rmrf(&job.scratch());
    sh
}

/// Root-cause classes for C17 (matched against known_findings.json).
fn classify17(class: &str, c: &C17Case) -> String {
    if c.at == "inner" {
        format!("{}[drop-while-a-background-operation-is-past-its-closed-check]", class)
    } else {
        class.to_string()
    }
}

pub fn replay(prop: &str, case: &Value) -> Vec<Violation> {
    let dir = PathBuf::from(format!("/dev/shm/vh-replay-{}", std::process::id()));
    let mut out = vec![];
    match case["kind"].as_str().unwrap_or("") {
        "c18" => {
            if let Some(c) = C18Case::from_json(case) {
                if let Err((cl, msg)) = c18_case(&dir, &c) {
                    out.push(Violation { class: format!("{}:{}", prop, cl), msg, case: case.clone() });
                }
            }
        }
        "c17" => {
            if let Some(c) = C17Case::from_json(case) {
                match c17_case(&dir, &c) {
                    Err((cl, msg)) => out.push(Violation { class: format!("{}:{}", prop, classify17(&cl, &c)), msg, case: case.clone() }),
                    Ok(o) => println!("outcome: {}", o),
                }
            }
        }
        _ => {}
    }
    rmrf(&dir);
    out
}

pub fn report_meta(prop: &str, tier: Tier) -> (String, Value, Vec<String>) {
    let assumptions = vec![
        "virtual time: the background thread (recognised by its name through the interposed pthread_setname_np) sees CLOCK_MONOTONIC plus a virtual offset, and its epoll_wait(timeout) advances the offset instead of sleeping after a 3 ms real grace for in-flight spawn_blocking results; these two calls are the worker's only time sources".to_string(),
        "jitter samples (rand::thread_rng) are observed, not chosen: the oracle accepts any sample inside the documented range".to_string(),
        "MergePolicy::Window is exercised with a window containing / excluding the current local hour; a case that straddles the top of the hour is retried".to_string(),
    ];
    match prop {
        "C18" => {
            let n = c18_cases(tier).len();
            (
                format!("exhaustive configuration grid in virtual time ({} configurations): merge policy {{never, always, window containing now, window excluding now}} x trigger situation {{none crossed, dead bytes crossed, fragmentation crossed, both (each placed while the worker is held at tick k in 1..3), dead bytes exactly equal to the trigger, fragmentation exactly equal to the trigger, trigger 0 with no dead bytes}} x check interval {{1 ms, 1 s, 18 s, 3 min, 1 h}} x jitter {{0, 0.3, 1}} x sync {{none, always, interval = interval/3{}}}, horizon {} ticks, plus interval sync alone at 1 ms / 500 ms / 10 min. At EVERY tick (worker held at the hook point after its sleep): tick spacing inside interval*(1 +- jitter); the implementation's trigger predicate equals a reference predicate on the counters; a merge starts at exactly the first tick at which the predicate holds and the policy allows, and at no other tick; with interval sync consecutive fsyncs of a data file are at most one interval apart in virtual time and stop after the drop.", n, tier.pick("", ", 2 x interval"), tier.pick(5, 10)),
                json!({"configurations": n, "horizon_ticks": tier.pick(5, 10)}),
                assumptions,
            )
        }
        _ => {
            let n = c17_cases(tier).len();
            (
                format!("{} cases: worker configuration {{trigger met, not met, merge never}} x {{no sync task, interval sync}} x drop placed before tick 1..3 at: worker asleep with its timer an hour (virtual) away; held at each hook gate (after the merge sleep, before the merge is spawned, after the sync sleep); held at EVERY hook point inside a running background merge or sync (blocking-pool thread). Everything is judged relative to the moment the drop RETURNED: every operation on a retained handle is rejected as closed; the old instance issues no mutating system call afterwards (global recorder); the worker thread is gone within 2 s real time; the directory re-opens at once, reads as the map model at once, after the old operation has completed and after a further re-open (reader cache 0); {} open/close cycles leave thread and descriptor counts unchanged.", n, tier.pick(2, 20)),
                json!({"cases": n}),
                assumptions,
            )
        }
    }
}

#[allow(dead_code)]
fn _unused(_: BTreeMap<u8, u8>) {}
