//! In-executable libc interposition (DESIGN §4.3).
//!
//! The functions below carry libc's names; because they are defined in the binary crate's own
//! object the static linker binds std's, mio's and memmap2's references to them. Each wrapper
//! consults thread-local / global mode flags and then forwards with `syscall(2)`.
//!
//! Modes: record (trace of mutating calls on files below a root directory), fault (fail / shorten
//! the n-th mutating call), sched (park at the scheduler before the call), seed (`getrandom`
//! answers from a harness seed), vtime (virtual monotonic clock for the store's background
//! thread), idle (server thread parked in `epoll_wait`), recv caps (TCP segmentation).

#![allow(clippy::missing_safety_doc)]

use std::cell::{Cell, RefCell};
use std::collections::{HashMap, HashSet};
use std::ffi::CStr;
use std::sync::atomic::{AtomicBool, AtomicI64, AtomicU64, AtomicUsize, Ordering};
use std::sync::Mutex;

use libc::{c_char, c_int, c_void};

// ---------------------------------------------------------------------------------------------
// Recorder

#[derive(Clone, Debug, PartialEq, Eq)]
pub enum Call {
    /// A file below the root was created (successful `open` with `O_CREAT`, file did not exist).
    Create { path: String, flags: i32 },
    /// Bytes appended through `write`/`writev` (only the bytes the kernel accepted).
    Write { path: String, data: Vec<u8> },
    Fsync { path: String },
    Unlink { path: String },
    /// Driver-inserted marker (`begin:<i>`, `ack:<i>`, ...).
    Mark(String),
    /// A call the C14 monitor forbids on store files.
    Forbidden(String),
    /// Informational: an existing file was opened (flags recorded).
    Open { path: String, flags: i32 },
}

impl Call {
    pub fn is_mutating(&self) -> bool {
        matches!(self, Call::Create { .. } | Call::Write { .. } | Call::Fsync { .. } | Call::Unlink { .. })
    }
    pub fn short(&self) -> String {
        match self {
            Call::Create { path, .. } => format!("create {}", path),
            Call::Write { path, data } => format!("write {} {}B", path, data.len()),
            Call::Fsync { path } => format!("fsync {}", path),
            Call::Unlink { path } => format!("unlink {}", path),
            Call::Mark(m) => format!("[{}]", m),
            Call::Forbidden(m) => format!("FORBIDDEN {}", m),
            Call::Open { path, flags } => format!("open {} {:#o}", path, flags),
        }
    }
}

#[derive(Clone, Copy, Debug, PartialEq, Eq)]
pub enum FaultKind {
    /// The call fails with this errno and has no effect.
    Errno(i32),
    /// A `write` accepts only this many bytes (at least 1, fewer than asked); other calls unaffected.
    Short(usize),
}

#[derive(Default)]
pub struct Rec {
    pub on: bool,
    /// Directory whose files are tracked, without trailing slash.
    pub root: String,
    /// (dev, ino) -> path relative to root, filled at creation / first open.
    pub files: HashMap<(u64, u64), String>,
    pub log: Vec<Call>,
    /// Fail the n-th (1-based) mutating call from now.
    pub fault_at: Option<(usize, FaultKind)>,
    pub nmut: usize,
    pub fired: bool,
    /// Stamp `Mark("vt:<ms>")` before every recorded call (E6).
    pub stamp_vtime: bool,
}

impl Rec {
    fn rel(&self, p: &str) -> Option<String> {
        if !self.on || self.root.is_empty() {
            return None;
        }
        if p.len() > self.root.len() + 1 && p.starts_with(&self.root) && p.as_bytes()[self.root.len()] == b'/' {
            Some(p[self.root.len() + 1..].to_string())
        } else {
            None
        }
    }
    fn push(&mut self, c: Call) {
        if self.stamp_vtime {
            self.log.push(Call::Mark(format!("vt:{}", vnow_ms())));
        }
        self.log.push(c);
    }
    /// Count one mutating call; return the fault to inject into it, if any.
    fn due(&mut self) -> Option<FaultKind> {
        self.nmut += 1;
        match self.fault_at {
            Some((n, k)) if n == self.nmut && !self.fired => {
                self.fired = true;
                Some(k)
            }
            _ => None,
        }
    }
}

thread_local! {
    static REC: RefCell<Rec> = RefCell::new(Rec::default());
    static SEED: Cell<Option<u64>> = const { Cell::new(None) };
    static VIRT: Cell<bool> = const { Cell::new(false) };
    static SRV: Cell<bool> = const { Cell::new(false) };
}
static GLOBAL_ON: AtomicBool = AtomicBool::new(false);
static GREC: Mutex<Option<Rec>> = Mutex::new(None);

/// Run `f` on the active recorder of this thread (thread-local first, then the global one).
fn with<R>(f: impl FnOnce(&mut Rec) -> R) -> Option<R> {
    let mut f = Some(f);
    let r = REC
        .try_with(|r| {
            if let Ok(mut r) = r.try_borrow_mut() {
                if r.on {
                    return Some((f.take().unwrap())(&mut r));
                }
            }
            None
        })
        .ok()
        .flatten();
    if r.is_some() {
        return r;
    }
    if GLOBAL_ON.load(Ordering::SeqCst) {
        if let Some(f) = f.take() {
            if let Ok(mut g) = GREC.lock() {
                if let Some(rec) = g.as_mut() {
                    if rec.on {
                        return Some(f(rec));
                    }
                }
            }
        }
    }
    None
}

thread_local! {
    /// every fallible call on a tracked file issued by THIS thread fails with this errno
    static TL_FAIL_ALL: Cell<Option<i32>> = const { Cell::new(None) };
    static TL_FAILED: Cell<usize> = const { Cell::new(0) };
}
/// From now on every create / write / fsync / unlink on a tracked file issued by the calling
/// thread fails with `errno` (None: back to normal). Returns how many calls were failed so far.
pub fn fail_all_on_this_thread(errno: Option<i32>) -> usize {
    TL_FAIL_ALL.with(|c| c.set(errno));
    TL_FAILED.with(|c| c.get())
}
thread_local! {
    static WALL_MODE: Cell<u8> = const { Cell::new(0) };
    static WALL_READS: Cell<u64> = const { Cell::new(0) };
}
/// Wall clock (CLOCK_REALTIME) seen by the calling thread: 0 real, 1 every reading an hour earlier
/// than the previous one, 2 standing still.
pub fn wall_clock_mode(mode: u8) {
    WALL_MODE.with(|c| c.set(mode));
    WALL_READS.with(|c| c.set(0));
}
pub fn wall_clock_reads() -> u64 {
    WALL_READS.with(|c| c.get())
}

thread_local! {
    /// (n, seen): fail the n-th read-path call (open of an existing store file for reading, mmap of
    /// a store file) issued by this thread; n = 0 only counts
    static TL_READ_FAULT: Cell<Option<(usize, usize)>> = const { Cell::new(None) };
    static TL_READ_FIRED: Cell<bool> = const { Cell::new(false) };
}
pub fn arm_read_fault(n: usize) {
    TL_READ_FAULT.with(|c| c.set(Some((n, 0))));
    TL_READ_FIRED.with(|c| c.set(false));
}
/// Disarm; returns (read-path calls seen since arming, whether the fault was injected).
pub fn disarm_read_fault() -> (usize, bool) {
    let seen = TL_READ_FAULT.with(|c| c.replace(None)).map(|x| x.1).unwrap_or(0);
    (seen, TL_READ_FIRED.with(|c| c.get()))
}
fn read_fault_due() -> bool {
    TL_READ_FAULT
        .try_with(|c| match c.get() {
            Some((n, seen)) => {
                c.set(Some((n, seen + 1)));
                if n == seen + 1 {
                    let _ = TL_READ_FIRED.try_with(|f| f.set(true));
                    true
                } else {
                    false
                }
            }
            None => false,
        })
        .unwrap_or(false)
}

thread_local! {
    static TL_READ_STALL: Cell<Option<(usize, usize)>> = const { Cell::new(None) };
    /// every open of a data file for reading by this thread stalls (round i until `stall_round_release(i)`)
    static TL_OPEN_STALL_ALL: Cell<bool> = const { Cell::new(false) };
}
static STALL_ROUND_ENTERED: AtomicUsize = AtomicUsize::new(0);
static STALL_ROUND_RELEASED: AtomicUsize = AtomicUsize::new(0);
/// Controlling thread, before the stalling thread starts.
pub fn stall_rounds_reset() {
    STALL_ROUND_ENTERED.store(0, Ordering::SeqCst);
    STALL_ROUND_RELEASED.store(0, Ordering::SeqCst);
}
pub fn stall_every_open_on_this_thread(on: bool) {
    TL_OPEN_STALL_ALL.with(|c| c.set(on));
}
pub fn stall_round_entered() -> usize {
    STALL_ROUND_ENTERED.load(Ordering::SeqCst)
}
pub fn stall_round_release(i: usize) {
    STALL_ROUND_RELEASED.store(i, Ordering::SeqCst);
}
fn open_stall_point() {
    if !TL_OPEN_STALL_ALL.try_with(|c| c.get()).unwrap_or(false) {
        return;
    }
    let i = STALL_ROUND_ENTERED.fetch_add(1, Ordering::SeqCst) + 1;
    let t0 = mono_ns();
    while STALL_ROUND_RELEASED.load(Ordering::SeqCst) < i && mono_ns() - t0 < 10_000_000_000 {
        std::thread::sleep(std::time::Duration::from_micros(100));
    }
}
/// The `n`-th read-path call (open of a data file for reading, mmap of it) of this thread takes
/// until `stall_release` (a slow disk); the thread keeps whatever it holds meanwhile.
pub fn arm_read_stall(n: usize) {
    TL_READ_STALL.with(|c| c.set(Some((n, 0))));
}
pub fn disarm_read_stall() {
    TL_READ_STALL.with(|c| c.set(None));
}
fn read_stall_point() {
    let due = TL_READ_STALL
        .try_with(|c| match c.get() {
            Some((n, seen)) => {
                c.set(Some((n, seen + 1)));
                n == seen + 1
            }
            None => false,
        })
        .unwrap_or(false);
    if due {
        STALL_REACHED.store(true, Ordering::SeqCst);
        let t0 = mono_ns();
        while !STALL_RELEASE.load(Ordering::SeqCst) && mono_ns() - t0 < 10_000_000_000 {
            std::thread::sleep(std::time::Duration::from_micros(100));
        }
    }
}

/// The fault (if any) to inject into the fallible call that is about to be made.
fn due_now() -> Option<FaultKind> {
    if let Some(e) = TL_FAIL_ALL.try_with(|c| c.get()).ok().flatten() {
        let _ = with(|r| r.nmut += 1);
        let _ = TL_FAILED.try_with(|c| c.set(c.get() + 1));
        return Some(FaultKind::Errno(e));
    }
    with(|r| r.due()).flatten()
}

/// Start recording on this thread for files below `root`.
pub fn rec_start(root: &str) {
    REC.with(|r| {
        let mut r = r.borrow_mut();
        *r = Rec::default();
        r.on = true;
        r.root = root.trim_end_matches('/').to_string();
    });
}
/// Stop recording on this thread and return the log.
pub fn rec_stop() -> Vec<Call> {
    REC.with(|r| {
        let mut r = r.borrow_mut();
        r.on = false;
        std::mem::take(&mut r.log)
    })
}
pub fn rec_take() -> Vec<Call> {
    REC.with(|r| std::mem::take(&mut r.borrow_mut().log))
}
pub fn rec_mark(m: String) {
    with(|r| r.log.push(Call::Mark(m)));
}
pub fn rec_len() -> usize {
    with(|r| r.log.len()).unwrap_or(0)
}
/// Arm a fault on the n-th mutating call counted from now.
pub fn rec_arm_fault(n: usize, k: FaultKind) {
    with(|r| {
        r.fault_at = Some((n, k));
        r.nmut = 0;
        r.fired = false;
    });
}
pub fn rec_reset_count() {
    with(|r| {
        r.nmut = 0;
        r.fault_at = None;
        r.fired = false;
    });
}
pub fn rec_fault_fired() -> bool {
    with(|r| r.fired).unwrap_or(false)
}
pub fn rec_nmut() -> usize {
    with(|r| r.nmut).unwrap_or(0)
}

/// Process-global recorder (used when the calls of interest happen on threads the harness does
/// not own: the store's background worker and its blocking pool).
pub fn grec_start(root: &str, stamp_vtime: bool) {
    let mut g = GREC.lock().unwrap();
    let mut r = Rec::default();
    r.on = true;
    r.root = root.trim_end_matches('/').to_string();
    r.stamp_vtime = stamp_vtime;
    *g = Some(r);
    GLOBAL_ON.store(true, Ordering::SeqCst);
}
pub fn grec_snapshot() -> Vec<Call> {
    GREC.lock().unwrap().as_ref().map(|r| r.log.clone()).unwrap_or_default()
}
pub fn grec_stop() -> Vec<Call> {
    GLOBAL_ON.store(false, Ordering::SeqCst);
    GREC.lock().unwrap().take().map(|r| r.log).unwrap_or_default()
}

unsafe fn cstr(p: *const c_char) -> String {
    if p.is_null() {
        return String::new();
    }
    CStr::from_ptr(p).to_string_lossy().to_string()
}
unsafe fn seterr(e: i32) {
    *libc::__errno_location() = e;
}
fn fd_key(fd: c_int) -> Option<(u64, u64)> {
    unsafe {
        let mut st: libc::stat = std::mem::zeroed();
        if libc::fstat(fd, &mut st) == 0 {
            Some((st.st_dev as u64, st.st_ino as u64))
        } else {
            None
        }
    }
}
/// Path (relative to the root) of a tracked file behind `fd`, resolved by (dev, ino).
fn tracked_fd(fd: c_int) -> Option<String> {
    if fd < 0 {
        return None;
    }
    // cheap pre-check: is any recorder on?
    let any = REC.try_with(|r| r.try_borrow().map(|r| r.on).unwrap_or(false)).unwrap_or(false)
        || GLOBAL_ON.load(Ordering::SeqCst);
    if !any {
        return None;
    }
    let key = fd_key(fd)?;
    with(|r| r.files.get(&key).cloned()).flatten()
}

// ---------------------------------------------------------------------------------------------
// open / create

unsafe fn do_open(path: *const c_char, flags: c_int, mode: libc::mode_t, label: &'static str) -> c_int {
    let p = cstr(path);
    if crate::sched::controlled() && p.contains("/vh-") {
        crate::sched::park_io(label);
    }
    let rel = with(|r| r.rel(&p)).flatten();
    let Some(rel) = rel else {
        return libc::syscall(libc::SYS_openat, libc::AT_FDCWD, path, flags, mode as libc::c_uint) as c_int;
    };
    let creating = flags & libc::O_CREAT != 0;
    let existed = {
        let mut st: libc::stat = std::mem::zeroed();
        libc::stat(path, &mut st) == 0
    };
    let acc = flags & libc::O_ACCMODE;
    if existed && (acc == libc::O_WRONLY || acc == libc::O_RDWR) && flags & libc::O_EXCL == 0 {
        with(|r| r.push(Call::Forbidden(format!("open-existing-for-write {} flags={:#o}", rel, flags))));
    }
    if flags & libc::O_TRUNC != 0 {
        with(|r| r.push(Call::Forbidden(format!("open-O_TRUNC {} flags={:#o}", rel, flags))));
    }
    if creating && !existed {
        if let Some(FaultKind::Errno(e)) = due_now() {
            seterr(e);
            return -1;
        }
    }
    if existed && !creating && acc == libc::O_RDONLY && rel.contains(".bitcask.") {
        read_stall_point();
        open_stall_point();
    }
    if existed && !creating && acc == libc::O_RDONLY && rel.contains(".bitcask.") && read_fault_due() {
        seterr(libc::EMFILE);
        return -1;
    }
    let fd = libc::syscall(libc::SYS_openat, libc::AT_FDCWD, path, flags, mode as libc::c_uint) as c_int;
    if fd >= 0 {
        if let Some(k) = fd_key(fd) {
            with(|r| {
                r.files.insert(k, rel.clone());
                if creating && !existed {
                    r.push(Call::Create { path: rel.clone(), flags });
                } else {
                    r.push(Call::Open { path: rel.clone(), flags });
                }
            });
        }
    }
    fd
}

#[no_mangle]
pub unsafe extern "C" fn open64(path: *const c_char, flags: c_int, mode: libc::mode_t) -> c_int {
    do_open(path, flags, mode, "open")
}
#[no_mangle]
pub unsafe extern "C" fn open(path: *const c_char, flags: c_int, mode: libc::mode_t) -> c_int {
    do_open(path, flags, mode, "open")
}

// ---------------------------------------------------------------------------------------------
// write / writev

#[no_mangle]
pub unsafe extern "C" fn write(fd: c_int, buf: *const c_void, n: usize) -> isize {
    if fd > 2 && crate::sched::controlled() {
        crate::sched::park_io("write");
    }
    if fd <= 2 {
        return libc::syscall(libc::SYS_write, fd, buf, n) as isize;
    }
    let Some(p) = tracked_fd(fd) else {
        return libc::syscall(libc::SYS_write, fd, buf, n) as isize;
    };
    if TL_STALL.try_with(|c| c.replace(false)).unwrap_or(false) {
        // a slow disk: this write takes until the harness says so (10 s at most)
        STALL_REACHED.store(true, Ordering::SeqCst);
        let t0 = mono_ns();
        while !STALL_RELEASE.load(Ordering::SeqCst) && mono_ns() - t0 < 10_000_000_000 {
            std::thread::sleep(std::time::Duration::from_micros(100));
        }
    }
    let mut n2 = n;
    match due_now() {
        Some(FaultKind::Errno(e)) => {
            seterr(e);
            return -1;
        }
        Some(FaultKind::Short(k)) => {
            if n > 1 {
                n2 = k.clamp(1, n - 1);
            }
        }
        None => {}
    }
    let r = libc::syscall(libc::SYS_write, fd, buf, n2) as isize;
    if r > 0 {
        let b = std::slice::from_raw_parts(buf as *const u8, r as usize).to_vec();
        with(|rr| rr.push(Call::Write { path: p, data: b }));
    }
    r
}

#[no_mangle]
pub unsafe extern "C" fn writev(fd: c_int, iov: *const libc::iovec, cnt: c_int) -> isize {
    if fd > 2 && crate::sched::controlled() {
        crate::sched::park_io("writev");
    }
    let Some(p) = tracked_fd(fd) else {
        return libc::syscall(libc::SYS_writev, fd, iov, cnt) as isize;
    };
    if let Some(FaultKind::Errno(e)) = due_now() {
        seterr(e);
        return -1;
    }
    let r = libc::syscall(libc::SYS_writev, fd, iov, cnt) as isize;
    if r > 0 {
        let mut left = r as usize;
        let mut b = Vec::with_capacity(left);
        for i in 0..cnt as usize {
            let v = &*iov.add(i);
            let take = left.min(v.iov_len);
            b.extend_from_slice(std::slice::from_raw_parts(v.iov_base as *const u8, take));
            left -= take;
            if left == 0 {
                break;
            }
        }
        with(|rr| rr.push(Call::Write { path: p, data: b }));
    }
    r
}

#[no_mangle]
pub unsafe extern "C" fn pwrite64(fd: c_int, buf: *const c_void, n: usize, off: i64) -> isize {
    if let Some(p) = tracked_fd(fd) {
        with(|r| r.push(Call::Forbidden(format!("pwrite {} off={} len={}", p, off, n))));
    }
    libc::syscall(libc::SYS_pwrite64, fd, buf, n, off) as isize
}
#[no_mangle]
pub unsafe extern "C" fn pwrite(fd: c_int, buf: *const c_void, n: usize, off: i64) -> isize {
    pwrite64(fd, buf, n, off)
}

// ---------------------------------------------------------------------------------------------
// fsync / fdatasync

static FSYNC_FAIL_AT: AtomicUsize = AtomicUsize::new(0);
static FSYNC_SEEN: AtomicUsize = AtomicUsize::new(0);
/// Fail the n-th fsync of a tracked file from now on, whichever thread issues it (0: off).
pub fn fail_nth_fsync(n: usize) {
    FSYNC_SEEN.store(0, Ordering::SeqCst);
    FSYNC_FAIL_AT.store(n, Ordering::SeqCst);
}

unsafe fn do_sync(fd: c_int, nr: libc::c_long) -> c_int {
    if fd > 2 && crate::sched::controlled() {
        crate::sched::park_io("fsync");
    }
    if let Some(p) = tracked_fd(fd) {
        if let Some(FaultKind::Errno(e)) = due_now() {
            seterr(e);
            return -1;
        }
        let nth = FSYNC_FAIL_AT.load(Ordering::SeqCst);
        if nth > 0 && FSYNC_SEEN.fetch_add(1, Ordering::SeqCst) + 1 == nth {
            with(|rr| rr.push(Call::Mark(format!("fsync-failed:{}", p))));
            seterr(libc::EIO);
            return -1;
        }
        let r = libc::syscall(nr, fd) as c_int;
        if r == 0 {
            with(|rr| rr.push(Call::Fsync { path: p }));
        }
        return r;
    }
    libc::syscall(nr, fd) as c_int
}
#[no_mangle]
pub unsafe extern "C" fn fsync(fd: c_int) -> c_int {
    do_sync(fd, libc::SYS_fsync)
}
#[no_mangle]
pub unsafe extern "C" fn fdatasync(fd: c_int) -> c_int {
    do_sync(fd, libc::SYS_fdatasync)
}

// ---------------------------------------------------------------------------------------------
// unlink

#[no_mangle]
pub unsafe extern "C" fn unlink(path: *const c_char) -> c_int {
    let p = cstr(path);
    if crate::sched::controlled() && p.contains("/vh-") {
        crate::sched::park_io("unlink");
    }
    let rel = with(|r| r.rel(&p)).flatten();
    if let Some(rel) = rel {
        let mut st: libc::stat = std::mem::zeroed();
        if libc::stat(path, &mut st) != 0 {
            // not there: the call fails with ENOENT by itself and is not a mutating call
            return libc::syscall(libc::SYS_unlink, path) as c_int;
        }
        if let Some(FaultKind::Errno(e)) = due_now() {
            seterr(e);
            return -1;
        }
        let r = libc::syscall(libc::SYS_unlink, path) as c_int;
        if r == 0 {
            with(|rr| rr.push(Call::Unlink { path: rel }));
        }
        return r;
    }
    libc::syscall(libc::SYS_unlink, path) as c_int
}

// ---------------------------------------------------------------------------------------------
// forbidden on store files: rename, truncate, writable shared mappings

#[no_mangle]
pub unsafe extern "C" fn rename(old: *const c_char, new: *const c_char) -> c_int {
    let (o, n) = (cstr(old), cstr(new));
    if let Some(rel) = with(|r| r.rel(&o).or_else(|| r.rel(&n))).flatten() {
        with(|r| r.push(Call::Forbidden(format!("rename {} ({} -> {})", rel, o, n))));
    }
    libc::syscall(libc::SYS_rename, old, new) as c_int
}
#[no_mangle]
pub unsafe extern "C" fn ftruncate64(fd: c_int, len: i64) -> c_int {
    if let Some(p) = tracked_fd(fd) {
        with(|r| r.push(Call::Forbidden(format!("ftruncate {} len={}", p, len))));
    }
    libc::syscall(libc::SYS_ftruncate, fd, len) as c_int
}
#[no_mangle]
pub unsafe extern "C" fn ftruncate(fd: c_int, len: i64) -> c_int {
    ftruncate64(fd, len)
}
#[no_mangle]
pub unsafe extern "C" fn truncate64(path: *const c_char, len: i64) -> c_int {
    let p = cstr(path);
    if let Some(rel) = with(|r| r.rel(&p)).flatten() {
        with(|r| r.push(Call::Forbidden(format!("truncate {} len={}", rel, len))));
    }
    libc::syscall(libc::SYS_truncate, path, len) as c_int
}
#[no_mangle]
pub unsafe extern "C" fn truncate(path: *const c_char, len: i64) -> c_int {
    truncate64(path, len)
}

unsafe fn do_mmap(a: *mut c_void, l: usize, p: c_int, f: c_int, fd: c_int, o: i64) -> *mut c_void {
    if fd >= 0 {
        if crate::sched::controlled() {
            crate::sched::park_io("mmap");
        }
        if p & libc::PROT_WRITE != 0 && f & libc::MAP_SHARED != 0 {
            if let Some(path) = tracked_fd(fd) {
                with(|r| r.push(Call::Forbidden(format!("mmap-writable-shared {}", path))));
            }
        }
    }
    if fd >= 0 && TL_READ_STALL.try_with(|c| c.get().is_some()).unwrap_or(false) && tracked_fd(fd).is_some() {
        read_stall_point();
    }
    if fd >= 0 && TL_READ_FAULT.try_with(|c| c.get().is_some()).unwrap_or(false) && tracked_fd(fd).is_some() && read_fault_due() {
        seterr(libc::ENOMEM);
        return libc::MAP_FAILED;
    }
    libc::syscall(libc::SYS_mmap, a, l, p, f, fd, o) as *mut c_void
}
#[no_mangle]
pub unsafe extern "C" fn mmap(a: *mut c_void, l: usize, p: c_int, f: c_int, fd: c_int, o: i64) -> *mut c_void {
    do_mmap(a, l, p, f, fd, o)
}
#[no_mangle]
pub unsafe extern "C" fn mmap64(a: *mut c_void, l: usize, p: c_int, f: c_int, fd: c_int, o: i64) -> *mut c_void {
    do_mmap(a, l, p, f, fd, o)
}

// ---------------------------------------------------------------------------------------------
// a write that takes as long as the harness wants (the calling thread keeps whatever lock it holds)

thread_local! {
    static TL_STALL: Cell<bool> = const { Cell::new(false) };
}
static STALL_REACHED: AtomicBool = AtomicBool::new(false);
static STALL_RELEASE: AtomicBool = AtomicBool::new(false);
/// Forget an earlier stall (call on the controlling thread BEFORE the thread that will stall is
/// started, so that neither flag is touched by two threads).
pub fn stall_reset() {
    STALL_REACHED.store(false, Ordering::SeqCst);
    STALL_RELEASE.store(false, Ordering::SeqCst);
}
/// The next write of this thread to a store file stalls until `stall_release`.
pub fn stall_next_write_on_this_thread() {
    TL_STALL.with(|c| c.set(true));
}
pub fn stall_disarm_this_thread() {
    TL_STALL.with(|c| c.set(false));
}
pub fn stall_reached() -> bool {
    STALL_REACHED.load(Ordering::SeqCst)
}
pub fn stall_release() {
    STALL_RELEASE.store(true, Ordering::SeqCst);
}

// ---------------------------------------------------------------------------------------------
// getrandom: hash seeds as a function of the harness seed

/// Make `getrandom` on this thread deterministic (`None` = real randomness).
pub fn set_seed(s: Option<u64>) {
    SEED.with(|c| c.set(s));
}

#[no_mangle]
pub unsafe extern "C" fn getrandom(buf: *mut c_void, n: usize, flags: libc::c_uint) -> isize {
    let s = SEED.try_with(|c| c.get()).ok().flatten();
    match s {
        Some(mut s) => {
            let b = buf as *mut u8;
            for i in 0..n {
                s = s.wrapping_mul(6364136223846793005).wrapping_add(1442695040888963407);
                *b.add(i) = (s >> 33) as u8;
            }
            let _ = SEED.try_with(|c| c.set(Some(s)));
            n as isize
        }
        None => libc::syscall(libc::SYS_getrandom, buf, n, flags) as isize,
    }
}

// ---------------------------------------------------------------------------------------------
// virtual time for the store's background thread (E6) and idle marker for the server thread (E5)

static VTIME_ENABLED: AtomicBool = AtomicBool::new(false);
static VOFF_NS: AtomicI64 = AtomicI64::new(0);
/// Real milliseconds the virtual-time `epoll_wait` waits for real readiness before jumping.
static VGRACE_MS: AtomicI64 = AtomicI64::new(3);
/// When set, the background thread's virtual clock may not advance (the harness holds time).
static VHOLD: AtomicBool = AtomicBool::new(false);
/// Virtual clock may not pass this limit (ns); `i64::MAX` = unlimited.
static VLIMIT_NS: AtomicI64 = AtomicI64::new(i64::MAX);
static BG_THREADS_SEEN: AtomicUsize = AtomicUsize::new(0);
/// Number of background blocking operations (merge / sync) known to be in flight: virtual time
/// does not jump while one is running, so the stamps of its system calls are exact.
static VBUSY: AtomicI64 = AtomicI64::new(0);

/// A background operation has finished but the task that awaits it may not have seen the result
/// yet: virtual time waits until it has ("bg:merge:done" / "bg:sync:done").
static VWAKE: AtomicI64 = AtomicI64::new(0);
static VWAKE_SINCE_NS: AtomicI64 = AtomicI64::new(0);
/// CLOCK_MONOTONIC at `vtime_enable`: the worker's clock is real elapsed time plus the offset.
static VT0_NS: AtomicI64 = AtomicI64::new(0);

fn mono_ns() -> i64 {
    unsafe {
        let mut ts: libc::timespec = std::mem::zeroed();
        libc::syscall(libc::SYS_clock_gettime, libc::CLOCK_MONOTONIC, &mut ts);
        ts.tv_sec as i64 * 1_000_000_000 + ts.tv_nsec as i64
    }
}

pub fn vtime_busy_now() -> i64 {
    VBUSY.load(Ordering::SeqCst)
}
pub fn vtime_busy(delta: i64) {
    let v = VBUSY.fetch_add(delta, Ordering::SeqCst) + delta;
    if v < 0 {
        VBUSY.store(0, Ordering::SeqCst);
    }
    if delta < 0 {
        VWAKE_SINCE_NS.store(mono_ns(), Ordering::SeqCst);
        VWAKE.fetch_add(1, Ordering::SeqCst);
    }
}

/// The background task has seen the result of a blocking operation it was waiting for.
pub fn vtime_seen() {
    let v = VWAKE.fetch_sub(1, Ordering::SeqCst) - 1;
    if v < 0 {
        VWAKE.store(0, Ordering::SeqCst);
    }
}
/// Times the wait for a result ended by its cap (expected: 0).
pub static VWAKE_TIMEOUTS: AtomicI64 = AtomicI64::new(0);

pub fn vtime_enable(on: bool) {
    VTIME_ENABLED.store(on, Ordering::SeqCst);
    VOFF_NS.store(0, Ordering::SeqCst);
    VHOLD.store(false, Ordering::SeqCst);
    VLIMIT_NS.store(i64::MAX, Ordering::SeqCst);
    VBUSY.store(0, Ordering::SeqCst);
    VWAKE.store(0, Ordering::SeqCst);
    VT0_NS.store(mono_ns(), Ordering::SeqCst);
}
/// The worker's clock in ms since `vtime_enable`: real elapsed time plus the virtual offset.
pub fn vnow_ms() -> i64 {
    vnow_ns() / 1_000_000
}
fn vnow_ns() -> i64 {
    mono_ns() - VT0_NS.load(Ordering::SeqCst) + VOFF_NS.load(Ordering::SeqCst)
}
pub fn vtime_hold(h: bool) {
    VHOLD.store(h, Ordering::SeqCst);
}
pub fn vtime_limit_ms(ms: Option<i64>) {
    VLIMIT_NS.store(ms.map(|m| m.saturating_mul(1_000_000)).unwrap_or(i64::MAX), Ordering::SeqCst);
}
pub fn vtime_set_grace_ms(ms: i64) {
    VGRACE_MS.store(ms, Ordering::SeqCst);
}
pub fn bg_threads_seen() -> usize {
    BG_THREADS_SEEN.load(Ordering::SeqCst)
}

#[no_mangle]
pub unsafe extern "C" fn pthread_setname_np(t: libc::pthread_t, name: *const c_char) -> c_int {
    let s = cstr(name);
    if s.starts_with("bitcask-backgro") {
        BG_THREADS_SEEN.fetch_add(1, Ordering::SeqCst);
        if VTIME_ENABLED.load(Ordering::SeqCst) {
            let _ = VIRT.try_with(|v| v.set(true));
        }
    }
    // std only ever names the current thread
    let _ = t;
    libc::syscall(libc::SYS_prctl, libc::PR_SET_NAME, name, 0, 0, 0);
    0
}

#[no_mangle]
pub unsafe extern "C" fn clock_gettime(clk: libc::clockid_t, ts: *mut libc::timespec) -> c_int {
    if clk == libc::CLOCK_REALTIME && !ts.is_null() {
        // the wall clock as an owned environment answer (entry timestamps come from it)
        let mode = WALL_MODE.try_with(|c| c.get()).unwrap_or(0);
        if mode != 0 {
            let k = WALL_READS.try_with(|c| {
                c.set(c.get() + 1);
                c.get()
            }).unwrap_or(1) as i64;
            let t0: i64 = 2_000_000_000;
            (*ts).tv_sec = match mode {
                1 => t0 - 3600 * k, // every reading is an hour EARLIER than the one before
                _ => t0,           // the clock stands still
            };
            (*ts).tv_nsec = 0;
            return 0;
        }
    }
    let r = libc::syscall(libc::SYS_clock_gettime, clk, ts) as c_int;
    if r == 0 && clk == libc::CLOCK_MONOTONIC && !ts.is_null() && SRV.try_with(|v| v.get()).unwrap_or(false) {
        let off = SRV_VOFF_NS.load(Ordering::SeqCst);
        if off != 0 {
            let mut ns = (*ts).tv_sec as i128 * 1_000_000_000 + (*ts).tv_nsec as i128 + off as i128;
            (*ts).tv_sec = (ns / 1_000_000_000) as i64;
            ns %= 1_000_000_000;
            (*ts).tv_nsec = ns as i64;
        }
        return r;
    }
    if r == 0 && clk == libc::CLOCK_MONOTONIC && VIRT.try_with(|v| v.get()).unwrap_or(false) {
        let off = VOFF_NS.load(Ordering::SeqCst);
        let mut ns = (*ts).tv_sec as i128 * 1_000_000_000 + (*ts).tv_nsec as i128 + off as i128;
        (*ts).tv_sec = (ns / 1_000_000_000) as i64;
        ns %= 1_000_000_000;
        (*ts).tv_nsec = ns as i64;
    }
    r
}

/// E5: time the server thread has been moved forward, and how much more it may be moved whenever
/// it sleeps on a timer.
static SRV_VOFF_NS: AtomicI64 = AtomicI64::new(0);
static SRV_JUMP_BUDGET_MS: AtomicI64 = AtomicI64::new(0);
/// Let `ms` milliseconds pass for the server thread: every timer it sleeps on fires as if that
/// much time had gone by (a server that sleeps on no timer is not affected).
pub fn srv_advance_time(ms: i64) {
    SRV_JUMP_BUDGET_MS.store(ms, Ordering::SeqCst);
}
pub fn srv_time_budget_left() -> i64 {
    SRV_JUMP_BUDGET_MS.load(Ordering::SeqCst)
}
pub fn srv_time_reset() {
    SRV_JUMP_BUDGET_MS.store(0, Ordering::SeqCst);
}

static IDLE: AtomicBool = AtomicBool::new(false);
/// the server thread is blocked with no timer pending (infinite epoll timeout)
static IDLE_NO_TIMER: AtomicBool = AtomicBool::new(false);
pub fn srv_idle_without_timer() -> bool {
    IDLE_NO_TIMER.load(Ordering::SeqCst)
}
static EPOCH: AtomicU64 = AtomicU64::new(0);

/// Mark the calling thread as the E5 server thread.
pub fn mark_server_thread(on: bool) {
    SRV.with(|v| v.set(on));
}
pub fn srv_idle() -> bool {
    IDLE.load(Ordering::SeqCst)
}
pub fn srv_epoch() -> u64 {
    EPOCH.load(Ordering::SeqCst)
}

#[no_mangle]
pub unsafe extern "C" fn epoll_wait(ep: c_int, evs: *mut libc::epoll_event, max: c_int, timeout: c_int) -> c_int {
    if SRV.try_with(|v| v.get()).unwrap_or(false) {
        let r = libc::syscall(libc::SYS_epoll_wait, ep, evs, max, 0) as c_int;
        if r != 0 || timeout == 0 {
            return r;
        }
        if timeout > 0 {
            // the server sleeps on a TIMER: time may be made to pass (srv_advance_time), otherwise the
            // wait is real, in short slices so that a later request to advance is noticed
            let mut remaining_ms = timeout as i64;
            let mut marked = false;
            loop {
                let budget = SRV_JUMP_BUDGET_MS.load(Ordering::SeqCst);
                if budget > 0 {
                    let take = budget.min(remaining_ms);
                    SRV_JUMP_BUDGET_MS.fetch_sub(take, Ordering::SeqCst);
                    SRV_VOFF_NS.fetch_add(take * 1_000_000, Ordering::SeqCst);
                    remaining_ms -= take;
                    if remaining_ms <= 0 {
                        if marked {
                            IDLE.store(false, Ordering::SeqCst);
                        }
                        return 0;
                    }
                    continue;
                }
                if !marked {
                    EPOCH.fetch_add(1, Ordering::SeqCst);
                    IDLE.store(true, Ordering::SeqCst);
                    marked = true;
                }
                let slice = remaining_ms.min(2) as c_int;
                let t0 = mono_ns();
                let r = libc::syscall(libc::SYS_epoll_wait, ep, evs, max, slice) as c_int;
                if r != 0 {
                    IDLE.store(false, Ordering::SeqCst);
                    return r;
                }
                remaining_ms -= ((mono_ns() - t0) / 1_000_000).max(1);
                if remaining_ms <= 0 {
                    IDLE.store(false, Ordering::SeqCst);
                    return 0;
                }
            }
        }
        EPOCH.fetch_add(1, Ordering::SeqCst);
        IDLE_NO_TIMER.store(true, Ordering::SeqCst);
        IDLE.store(true, Ordering::SeqCst);
        let r = libc::syscall(libc::SYS_epoll_wait, ep, evs, max, timeout) as c_int;
        IDLE.store(false, Ordering::SeqCst);
        IDLE_NO_TIMER.store(false, Ordering::SeqCst);
        return r;
    }
    if !VIRT.try_with(|v| v.get()).unwrap_or(false) {
        return libc::syscall(libc::SYS_epoll_wait, ep, evs, max, timeout) as c_int;
    }
    if timeout <= 0 {
        return libc::syscall(libc::SYS_epoll_wait, ep, evs, max, timeout) as c_int;
    }
    // Virtual time: poll for real readiness (with a short real grace for an in-flight
    // spawn_blocking result), otherwise jump the clock by the requested timeout.
    loop {
        let grace = VGRACE_MS.load(Ordering::SeqCst).min(timeout as i64).max(0) as c_int;
        let r = libc::syscall(libc::SYS_epoll_wait, ep, evs, max, grace) as c_int;
        if r != 0 {
            return r;
        }
        if VHOLD.load(Ordering::SeqCst) || VBUSY.load(Ordering::SeqCst) > 0 {
            continue;
        }
        if VWAKE.load(Ordering::SeqCst) > 0 {
            // the task that awaits the operation reports when it has seen the result (`vtime_seen`);
            // the cap is for a task that ended instead (its operation panicked)
            if mono_ns() - VWAKE_SINCE_NS.load(Ordering::SeqCst) < 5_000_000_000 {
                continue;
            }
            VWAKE_TIMEOUTS.fetch_add(1, Ordering::SeqCst);
            eprintln!("vtime: the result of a background operation was not seen by its task for 5 s");
            VWAKE.store(0, Ordering::SeqCst);
        }
        let now = vnow_ns();
        let add = timeout as i64 * 1_000_000;
        let want = now.saturating_add(add);
        let lim = VLIMIT_NS.load(Ordering::SeqCst);
        if want > lim {
            // advance up to the limit, then keep polling in real time
            if now < lim {
                VOFF_NS.fetch_add(lim - now, Ordering::SeqCst);
                return 0;
            }
            continue;
        }
        VOFF_NS.fetch_add(add, Ordering::SeqCst);
        return 0;
    }
}

// ---------------------------------------------------------------------------------------------
// TCP segmentation for the E5 server: cap what each server-side recv returns

static SERVER_FDS: Mutex<Option<HashSet<c_int>>> = Mutex::new(None);
/// Script of recv caps consumed one per recv on server-side sockets; when exhausted `RECV_DEFAULT`.
static RECV_SCRIPT: Mutex<Vec<usize>> = Mutex::new(Vec::new());
static RECV_DEFAULT: AtomicUsize = AtomicUsize::new(usize::MAX);
static NRECV: AtomicUsize = AtomicUsize::new(0);

pub fn recv_set_script(mut caps: Vec<usize>, default_cap: usize) {
    caps.reverse();
    *RECV_SCRIPT.lock().unwrap() = caps;
    RECV_DEFAULT.store(default_cap, Ordering::SeqCst);
}
pub fn recv_count() -> usize {
    NRECV.load(Ordering::SeqCst)
}

/// Peer ports whose accept must fail: the connection is taken off the queue, closed, and accept4
/// reports ECONNABORTED (what a kernel reports when a queued connection was reset).
static ACCEPT_ABORT_PORTS: Mutex<Vec<u16>> = Mutex::new(Vec::new());
static ACCEPT_ABORTED: AtomicUsize = AtomicUsize::new(0);

pub fn accept_abort_port(port: u16) {
    ACCEPT_ABORT_PORTS.lock().unwrap().push(port);
}
pub fn accept_abort_clear() {
    ACCEPT_ABORT_PORTS.lock().unwrap().clear();
}
pub fn accept_aborted_count() -> usize {
    ACCEPT_ABORTED.load(Ordering::SeqCst)
}

#[no_mangle]
pub unsafe extern "C" fn accept4(fd: c_int, addr: *mut libc::sockaddr, len: *mut libc::socklen_t, flags: c_int) -> c_int {
    let r = libc::syscall(libc::SYS_accept4, fd, addr, len, flags) as c_int;
    if r >= 0 && SRV.try_with(|v| v.get()).unwrap_or(false) {
        // peer port of the accepted connection
        let mut sa: libc::sockaddr_in = std::mem::zeroed();
        let mut sl = std::mem::size_of::<libc::sockaddr_in>() as libc::socklen_t;
        if libc::getpeername(r, &mut sa as *mut _ as *mut libc::sockaddr, &mut sl) == 0 && sa.sin_family as i32 == libc::AF_INET {
            let port = u16::from_be(sa.sin_port);
            let hit = ACCEPT_ABORT_PORTS.lock().map(|mut v| if let Some(i) = v.iter().position(|p| *p == port) { v.remove(i); true } else { false }).unwrap_or(false);
            if hit {
                libc::syscall(libc::SYS_close, r);
                ACCEPT_ABORTED.fetch_add(1, Ordering::SeqCst);
                seterr(libc::ECONNABORTED);
                return -1;
            }
        }
        if let Ok(mut g) = SERVER_FDS.lock() {
            g.get_or_insert_with(HashSet::new).insert(r);
        }
    }
    r
}

#[no_mangle]
pub unsafe extern "C" fn recv(fd: c_int, buf: *mut c_void, n: usize, flags: c_int) -> isize {
    let mut n2 = n;
    if SRV.try_with(|v| v.get()).unwrap_or(false) {
        let is_srv = SERVER_FDS.lock().map(|g| g.as_ref().map_or(false, |s| s.contains(&fd))).unwrap_or(false);
        if is_srv {
            NRECV.fetch_add(1, Ordering::SeqCst);
            // exact segmentation: the next scripted segment is handed over only once all of it has
            // arrived (until then the socket looks empty; its arrival raises a new readiness edge)
            let top = RECV_SCRIPT.lock().ok().and_then(|s| s.last().copied());
            if let Some(cap) = top {
                let cap = cap.max(1);
                let mut avail: c_int = 0;
                libc::ioctl(fd, libc::FIONREAD, &mut avail);
                if (avail as usize) < cap {
                    // peer closed with less than a segment outstanding: fall through to the real call
                    let mut p = libc::pollfd { fd, events: libc::POLLRDHUP | libc::POLLHUP, revents: 0 };
                    let hup = libc::poll(&mut p, 1, 0) > 0 && (p.revents & (libc::POLLRDHUP | libc::POLLHUP | libc::POLLERR)) != 0;
                    if !hup {
                        seterr(libc::EAGAIN);
                        return -1;
                    }
                }
                n2 = n.min(cap);
                let r = libc::syscall(libc::SYS_recvfrom, fd, buf, n2, flags, 0usize, 0usize) as isize;
                if r > 0 {
                    if let Ok(mut sc) = RECV_SCRIPT.lock() {
                        if let Some(t) = sc.last_mut() {
                            if (r as usize) >= *t {
                                sc.pop();
                            } else {
                                *t -= r as usize;
                            }
                        }
                    }
                }
                return r;
            }
            n2 = n.min(RECV_DEFAULT.load(Ordering::SeqCst).max(1));
        }
    }
    libc::syscall(libc::SYS_recvfrom, fd, buf, n2, flags, 0usize, 0usize) as isize
}

#[no_mangle]
pub unsafe extern "C" fn close(fd: c_int) -> c_int {
    if SRV.try_with(|v| v.get()).unwrap_or(false) {
        if let Ok(mut g) = SERVER_FDS.try_lock() {
            if let Some(s) = g.as_mut() {
                s.remove(&fd);
            }
        }
    }
    libc::syscall(libc::SYS_close, fd) as c_int
}

// ---------------------------------------------------------------------------------------------
// helpers for engines

/// Keys of `HashMap` to satisfy the unused warning when some modes are not compiled in a build.
#[allow(dead_code)]
pub fn _unused() -> (usize, HashMap<u8, u8>) {
    (AtomicU64::new(0).load(Ordering::SeqCst) as usize, HashMap::new())
}
