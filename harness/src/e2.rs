//! E2 `crash` — every crash point, loss pattern and single fault of a recorded history
//! (DESIGN §5 E2). Serves C03 (process crash), C09 (power loss), C20 (single fault), C14 (E2 half).

use std::collections::{BTreeMap, BTreeSet};
use std::path::{Path, PathBuf};
use std::time::Instant;

use bitcask::storage::KeyValueStorage;
use serde_json::{json, Value};

use crate::common::*;
use crate::e1::{self, b, key_bytes, show_word, val_bytes, word_from_json, word_json, Cfg, Exec, Op, Thr, NEVER_KEY};
use crate::iohook::{self, Call, FaultKind};
use crate::model::Kv;

// ---------------------------------------------------------------------------------------------
// running a piece of code in a forked child (an abort there is an observation, not the end)

pub enum ChildOut {
    Ok(Vec<u8>),
    Died(String),
    Timeout,
}

/// fork() in a process that has other threads can leave a lock (allocator arena, thread stack
/// cache, loader) held for ever in the child. The only other threads a worker ever has are the
/// background threads of stores it has just dropped, which exit by themselves: wait for them.
fn wait_single_threaded() {
    let t0 = Instant::now();
    loop {
        let n = std::fs::read_dir("/proc/self/task").map(|r| r.count()).unwrap_or(1);
        if n <= 1 || t0.elapsed().as_millis() > 200 {
            return;
        }
        std::thread::sleep(std::time::Duration::from_micros(100));
    }
}

pub fn in_child(f: impl FnOnce() -> Vec<u8>, timeout_ms: i32) -> ChildOut {
    wait_single_threaded();
    unsafe {
        let mut fds = [0i32; 2];
        if libc::pipe(fds.as_mut_ptr()) != 0 {
            return ChildOut::Died("pipe failed".into());
        }
        let pid = libc::fork();
        if pid < 0 {
            return ChildOut::Died("fork failed".into());
        }
        if pid == 0 {
            libc::close(fds[0]);
            std::panic::set_hook(Box::new(|_| {}));
            let out = std::panic::catch_unwind(std::panic::AssertUnwindSafe(f)).unwrap_or_else(|_| b"{\"harness_panic\":true}".to_vec());
            let mut off = 0;
            while off < out.len() {
                let r = libc::syscall(libc::SYS_write, fds[1], out.as_ptr().add(off), out.len() - off) as isize;
                if r <= 0 {
                    break;
                }
                off += r as usize;
            }
            libc::_exit(0);
        }
        libc::close(fds[1]);
        let mut out = vec![];
        let mut buf = [0u8; 65536];
        let t0 = Instant::now();
        let mut timed_out = false;
        loop {
            let left = timeout_ms as i64 - t0.elapsed().as_millis() as i64;
            if left <= 0 {
                timed_out = true;
                break;
            }
            let mut p = libc::pollfd { fd: fds[0], events: libc::POLLIN, revents: 0 };
            let r = libc::poll(&mut p, 1, left.min(1000) as i32);
            if r > 0 {
                let n = libc::read(fds[0], buf.as_mut_ptr() as *mut libc::c_void, buf.len());
                if n <= 0 {
                    break;
                }
                out.extend_from_slice(&buf[..n as usize]);
            }
        }
        libc::close(fds[0]);
        let mut st = 0i32;
        if timed_out {
            libc::kill(pid, libc::SIGKILL);
            libc::waitpid(pid, &mut st, 0);
            return ChildOut::Timeout;
        }
        libc::waitpid(pid, &mut st, 0);
        if libc::WIFEXITED(st) && libc::WEXITSTATUS(st) == 0 {
            ChildOut::Ok(out)
        } else if libc::WIFSIGNALED(st) {
            ChildOut::Died(format!("killed by signal {}", libc::WTERMSIG(st)))
        } else {
            ChildOut::Died(format!("exit status {}", libc::WEXITSTATUS(st)))
        }
    }
}

// ---------------------------------------------------------------------------------------------
// recording a workload

pub const KEYS: [u8; 4] = [0, 1, NEVER_KEY, 6];

#[derive(Clone, Debug)]
pub struct Recorded {
    pub log: Vec<Call>,
    /// per operation: "ok" | "ok:true" | "err:<msg>" | "panic:<msg>"
    pub results: Vec<String>,
    /// reads after every operation (in-process), per key
    pub reads: Vec<Vec<Result<Option<Vec<u8>>, String>>>,
    /// whether the armed fault fired, and during which operation
    pub fault_op: Option<usize>,
    pub live_dir: BTreeMap<String, Vec<u8>>,
    pub open_failed: Option<String>,
}

fn classify_ret(s: &str) -> String {
    // s is the Debug rendering produced by Exec::step: Ok(Ok(..)) / Ok(Err("..")) / Err("PANIC: ..")
    if s.starts_with("Ok(Ok(") {
        format!("ok:{}", s.trim_start_matches("Ok(Ok(").trim_end_matches("))"))
    } else if s.starts_with("Ok(Err(") {
        format!("err:{}", s.trim_start_matches("Ok(Err(").trim_end_matches("))"))
    } else {
        format!("panic:{}", s)
    }
}

/// Run `word` on a fresh store in `dir` with the recorder on. `fault` = (n-th mutating call after
/// the initial open, kind).
pub fn record(cfg: Cfg, word: &[Op], dir: &Path, fault: Option<(usize, FaultKind)>) -> Recorded {
    let word = word.to_vec();
    let dir = dir.to_path_buf();
    std::thread::spawn(move || {
        iohook::set_seed(Some(cfg.seed));
        rmrf(&dir);
        std::fs::create_dir_all(&dir).unwrap();
        iohook::rec_start(&dir.to_string_lossy());
        let mut rec = Recorded { log: vec![], results: vec![], reads: vec![], fault_op: None, live_dir: BTreeMap::new(), open_failed: None };
        let mut e = match Exec::open(&dir, cfg) {
            Ok(e) => e,
            Err(m) => {
                rec.open_failed = Some(m);
                rec.log = iohook::rec_stop();
                return rec;
            }
        };
        if let Some((n, k)) = fault {
            iohook::rec_arm_fault(n, k);
        } else {
            iohook::rec_reset_count();
        }
        for (i, op) in word.iter().enumerate() {
            iohook::rec_mark(format!("begin:{}", i));
            let fired_before = iohook::rec_fault_fired();
            let (got, _want) = e.step(*op);
            let r = classify_ret(&got);
            if !fired_before && iohook::rec_fault_fired() {
                rec.fault_op = Some(i);
            }
            if r.starts_with("ok") {
                iohook::rec_mark(format!("ack:{}", i));
            }
            rec.results.push(r);
            if e.h.is_none() {
                // a failed reopen: the directory must still open (fault-free now)
                if e.reopen().is_err() {
                    rec.reads.push(vec![]);
                    break;
                }
            }
            rec.reads.push(KEYS.iter().map(|&k| e.get(k)).collect());
        }
        e.close();
        rec.live_dir = list_dir(&dir);
        rec.log = iohook::rec_stop();
        iohook::set_seed(None);
        rec
    })
    .join()
    .expect("record thread")
}

/// Record `word` on a store that is opened on the directory `initial` (a crash directory whose
/// recovery by the real code has already been seen to work in a forked child). The log starts with
/// the calls of that recovery.
pub fn record_from(cfg: Cfg, word: &[Op], dir: &Path, initial: &BTreeMap<String, Vec<u8>>) -> Recorded {
    let word = word.to_vec();
    let dir = dir.to_path_buf();
    let initial = initial.clone();
    std::thread::spawn(move || {
        iohook::set_seed(Some(cfg.seed));
        write_dir(&dir, &initial);
        iohook::rec_start(&dir.to_string_lossy());
        let mut rec = Recorded { log: vec![], results: vec![], reads: vec![], fault_op: None, live_dir: BTreeMap::new(), open_failed: None };
        let mut e = match Exec::open_existing(&dir, cfg) {
            Ok(e) => e,
            Err(m) => {
                rec.open_failed = Some(m);
                rec.log = iohook::rec_stop();
                return rec;
            }
        };
        iohook::rec_reset_count();
        for (i, op) in word.iter().enumerate() {
            iohook::rec_mark(format!("begin:{}", i));
            let (got, _want) = e.step(*op);
            let r = classify_ret(&got);
            if r.starts_with("ok") {
                iohook::rec_mark(format!("ack:{}", i));
            }
            rec.results.push(r);
            if e.h.is_none() {
                break;
            }
            rec.reads.push(KEYS.iter().map(|&k| e.get(k)).collect());
        }
        e.close();
        rec.live_dir = list_dir(&dir);
        rec.log = iohook::rec_stop();
        iohook::set_seed(None);
        rec
    })
    .join()
    .expect("record thread")
}

/// Apply recorded calls on top of an existing directory image.
pub fn materialize_from(base: &BTreeMap<String, Vec<u8>>, calls: &[Call]) -> BTreeMap<String, Vec<u8>> {
    let mut files = base.clone();
    for c in calls {
        match c {
            Call::Create { path, .. } => {
                files.insert(path.clone(), vec![]);
            }
            Call::Write { path, data } => {
                if let Some(f) = files.get_mut(path) {
                    f.extend_from_slice(data);
                }
            }
            Call::Unlink { path } => {
                files.remove(path);
            }
            _ => {}
        }
    }
    files
}

/// Run a *faulted* recording in a forked child: a fault can leave the store in a state in which
/// an in-process reopen aborts the process. The child leaves the directory behind on tmpfs; only
/// results and reads travel through the pipe.
pub fn record_in_child(cfg: Cfg, word: &[Op], dir: &Path, fault: Option<(usize, FaultKind)>) -> Result<Recorded, String> {
    match record_in_child_once(cfg, word, dir, fault) {
        Err(e) if e.contains("hang") => record_in_child_once(cfg, word, dir, fault),
        r => r,
    }
}

fn record_in_child_once(cfg: Cfg, word: &[Op], dir: &Path, fault: Option<(usize, FaultKind)>) -> Result<Recorded, String> {
    let w2 = word.to_vec();
    let d2 = dir.to_path_buf();
    let out = in_child(
        move || {
            let r = record(cfg, &w2, &d2, fault);
            let enc = |r: &Result<Option<Vec<u8>>, String>| match r {
                Ok(Some(v)) => json!({"v": v}),
                Ok(None) => json!({"n": 1}),
                Err(e) => json!({"e": e}),
            };
            serde_json::to_vec(&json!({
                "results": r.results,
                "reads": r.reads.iter().map(|rd| rd.iter().map(enc).collect::<Vec<_>>()).collect::<Vec<_>>(),
                "fault_op": r.fault_op,
                "open_failed": r.open_failed,
            }))
            .unwrap()
        },
        15_000,
    );
    match out {
        ChildOut::Ok(bytes) => {
            let v: Value = serde_json::from_slice(&bytes).map_err(|e| format!("child output unreadable: {}", e))?;
            let dec = |x: &Value| -> Result<Option<Vec<u8>>, String> {
                if let Some(a) = x["v"].as_array() {
                    Ok(Some(a.iter().map(|b| b.as_u64().unwrap() as u8).collect()))
                } else if x["n"].is_number() {
                    Ok(None)
                } else {
                    Err(x["e"].as_str().unwrap_or("?").to_string())
                }
            };
            Ok(Recorded {
                log: vec![],
                results: v["results"].as_array().map(|a| a.iter().map(|x| x.as_str().unwrap_or("").to_string()).collect()).unwrap_or_default(),
                reads: v["reads"].as_array().map(|a| a.iter().map(|rd| rd.as_array().unwrap().iter().map(dec).collect()).collect()).unwrap_or_default(),
                fault_op: v["fault_op"].as_u64().map(|x| x as usize),
                live_dir: list_dir(dir),
                open_failed: v["open_failed"].as_str().map(|s| s.to_string()),
            })
        }
        ChildOut::Died(how) => Err(format!("process died while running the workload: {}", how)),
        ChildOut::Timeout => Err("the workload did not finish within 15 s (hang)".into()),
    }
}

// ---------------------------------------------------------------------------------------------
// materialising a prefix of the calls

/// Directory contents produced by exactly the calls in `calls` (markers ignored), each file cut to
/// `cut[file]` bytes if present.
pub fn materialize(calls: &[Call], cut: &BTreeMap<String, usize>) -> BTreeMap<String, Vec<u8>> {
    let mut files: BTreeMap<String, Vec<u8>> = BTreeMap::new();
    for c in calls {
        match c {
            Call::Create { path, .. } => {
                files.insert(path.clone(), vec![]);
            }
            Call::Write { path, data } => {
                if let Some(f) = files.get_mut(path) {
                    f.extend_from_slice(data);
                }
            }
            Call::Unlink { path } => {
                files.remove(path);
            }
            _ => {}
        }
    }
    for (p, l) in cut {
        if let Some(f) = files.get_mut(p) {
            f.truncate(*l);
        }
    }
    files
}

pub fn write_dir(dir: &Path, files: &BTreeMap<String, Vec<u8>>) {
    rmrf(dir);
    std::fs::create_dir_all(dir).unwrap();
    for (n, bts) in files {
        std::fs::write(dir.join(n), bts).unwrap();
    }
}

// ---------------------------------------------------------------------------------------------
// recovery judge (runs in a forked child)

#[derive(Debug, Clone)]
pub struct Recovery {
    /// reads after the first and after a second recovery (a crash right after recovery's own create)
    pub reads: Vec<Vec<Result<Option<Vec<u8>>, String>>>,
    /// reads after "set(a, post-crash); del(b)" through the recovered store and one more restart
    pub post: Option<Vec<Result<Option<Vec<u8>>, String>>>,
    pub error: Option<String>,
    pub trace_violations: Vec<(String, String)>,
    /// per bulk key after the first recovery: '0' absent, '1' / '2' generation, '9' anything else
    pub bulk: String,
}

fn recover_in_child(dir: &Path, cfg: Cfg, max_id_ever: Option<u64>, rounds: usize) -> Result<Recovery, String> {
    // a silent child is re-tried once from a pristine copy of the directory before it is believed
    let snapshot = list_dir(dir);
    match recover_in_child_once(dir, cfg, max_id_ever, rounds) {
        Err(e) if e.contains("hang") => {
            write_dir(dir, &snapshot);
            recover_in_child_once(dir, cfg, max_id_ever, rounds)
        }
        r => r,
    }
}

fn recover_in_child_once(dir: &Path, cfg: Cfg, max_id_ever: Option<u64>, rounds: usize) -> Result<Recovery, String> {
    let dir2 = dir.to_path_buf();
    let out = in_child(
        move || {
            iohook::set_seed(Some(cfg.seed.wrapping_add(1000)));
            // a pristine copy of the crash directory for the "life goes on" phase below
            let dir_b = dir2.with_extension("b");
            if rounds >= 2 {
                write_dir(&dir_b, &list_dir(&dir2));
            }
            iohook::rec_start(&dir2.to_string_lossy());
            let mut reads = vec![];
            let mut error: Option<String> = None;
            let mut bulk_codes = String::new();
            for round in 0..rounds {
                iohook::rec_mark(format!("incarnation:{}", round + 1));
                let c = cfg.build(&dir2);
                let r = std::panic::catch_unwind(std::panic::AssertUnwindSafe(|| -> Result<Vec<Result<Option<Vec<u8>>, String>>, String> {
                    let kv = c.open().map_err(|e| format!("open: {}", e))?;
                    let h = kv.get_handle();
                    let mut panicked = false;
                    if round == 0 {
                        let nb = BULK_N.load(std::sync::atomic::Ordering::SeqCst);
                        let mut codes = String::with_capacity(nb);
                        for i in 0..nb {
                            if h.verif_pool().0 == 0 {
                                codes.push('9');
                                continue;
                            }
                            let r = std::panic::catch_unwind(std::panic::AssertUnwindSafe(|| h.get(b(e1::bulk_key(i)))));
                            codes.push(match r {
                                Ok(Ok(None)) => '0',
                                Ok(Ok(Some(v))) if v[..] == e1::bulk_val(1, i)[..] => '1',
                                Ok(Ok(Some(v))) if v[..] == e1::bulk_val(2, i)[..] => '2',
                                _ => '9',
                            });
                        }
                        bulk_codes = codes;
                    }
                    Ok(KEYS
                        .iter()
                        .map(|&k| {
                            if panicked || h.verif_pool().0 == 0 {
                                // a panicking get loses its pooled reader; with one reader the next get would spin forever
                                return Err("skipped after a PANIC in get".to_string());
                            }
                            match std::panic::catch_unwind(std::panic::AssertUnwindSafe(|| h.get(b(key_bytes(k))))) {
                                Ok(Ok(v)) => Ok(v.map(|x| x.to_vec())),
                                Ok(Err(e)) => Err(format!("Err: {}", e)),
                                Err(_) => {
                                    panicked = true;
                                    Err("PANIC in get".to_string())
                                }
                            }
                        })
                        .collect())
                }));
                match r {
                    Ok(Ok(rd)) => reads.push(rd),
                    Ok(Err(e)) => {
                        error = Some(e);
                        break;
                    }
                    Err(_) => {
                        error = Some("PANIC in open".into());
                        break;
                    }
                }
            }
            let log = iohook::rec_stop();
            // life goes on after a crash: write through the recovered store, restart once more, and
            // read again (a recovery that looks right may still have prepared a trap, e.g. by taking
            // an id that an orphan file of the crashed incarnation will later shadow)
            let mut post: Option<Vec<Result<Option<Vec<u8>>, String>>> = None;
            if rounds >= 2 && error.is_none() {
                let r = std::panic::catch_unwind(std::panic::AssertUnwindSafe(|| -> Result<Vec<Result<Option<Vec<u8>>, String>>, String> {
                    // the writes go through the FIRST incarnation after the crash
                    {
                        let kv = cfg.build(&dir_b).open().map_err(|e| format!("open: {}", e))?;
                        let h = kv.get_handle();
                        h.set(b(key_bytes(0)), b(b"post-crash".to_vec())).map_err(|e| format!("set after recovery: {}", e))?;
                        h.del(b(key_bytes(1))).map_err(|e| format!("del after recovery: {}", e))?;
                    }
                    let kv = cfg.build(&dir_b).open().map_err(|e| format!("open: {}", e))?;
                    let h = kv.get_handle();
                    Ok(KEYS
                        .iter()
                        .map(|&k| {
                            if h.verif_pool().0 == 0 {
                                return Err("HANG: reader pool empty".to_string());
                            }
                            match std::panic::catch_unwind(std::panic::AssertUnwindSafe(|| h.get(b(key_bytes(k))))) {
                                Ok(Ok(v)) => Ok(v.map(|x| x.to_vec())),
                                Ok(Err(e)) => Err(format!("Err: {}", e)),
                                Err(_) => Err("PANIC in get".to_string()),
                            }
                        })
                        .collect())
                }));
                post = Some(match r {
                    Ok(Ok(rd)) => rd,
                    Ok(Err(e)) => vec![Err(e)],
                    Err(_) => vec![Err("PANIC".to_string())],
                });
            }
            rmrf(&dir_b);
            let mut tv = vec![];
            e1::check_trace_invariants(&log, max_id_ever, &mut tv);
            // recovery never rewrites existing files: its only mutating calls are creations
            for c in &log {
                if matches!(c, Call::Write { .. } | Call::Unlink { .. }) {
                    tv.push(("C14:recovery-mutated-existing-files".to_string(), c.short(), None));
                }
            }
            let enc = |r: &Result<Option<Vec<u8>>, String>| match r {
                Ok(Some(v)) => json!({"v": v}),
                Ok(None) => json!({"n": 1}),
                Err(e) => json!({"e": e}),
            };
            serde_json::to_vec(&json!({
                "reads": reads.iter().map(|rd| rd.iter().map(enc).collect::<Vec<_>>()).collect::<Vec<_>>(),
                "error": error,
                "tv": tv.iter().map(|(c, m, _)| json!([c, m])).collect::<Vec<_>>(),
                "post": post.as_ref().map(|rd| rd.iter().map(enc).collect::<Vec<_>>()),
                "bulk": bulk_codes,
            }))
            .unwrap()
        },
        8_000,
    );
    match out {
        ChildOut::Ok(bytes) => {
            let v: Value = serde_json::from_slice(&bytes).map_err(|e| format!("child output unreadable: {} ({} bytes)", e, bytes.len()))?;
            let dec = |x: &Value| -> Result<Option<Vec<u8>>, String> {
                if let Some(a) = x["v"].as_array() {
                    Ok(Some(a.iter().map(|b| b.as_u64().unwrap() as u8).collect()))
                } else if x["n"].is_number() {
                    Ok(None)
                } else {
                    Err(x["e"].as_str().unwrap_or("?").to_string())
                }
            };
            Ok(Recovery {
                reads: v["reads"].as_array().map(|a| a.iter().map(|rd| rd.as_array().unwrap().iter().map(dec).collect()).collect()).unwrap_or_default(),
                error: v["error"].as_str().map(|s| s.to_string()),
                post: v["post"].as_array().map(|a| a.iter().map(dec).collect()),
                trace_violations: v["tv"].as_array().map(|a| a.iter().map(|x| (x[0].as_str().unwrap().to_string(), x[1].as_str().unwrap().to_string())).collect()).unwrap_or_default(),
                bulk: v["bulk"].as_str().unwrap_or("").to_string(),
            })
        }
        ChildOut::Died(how) => Err(format!("process died during recovery: {}", how)),
        ChildOut::Timeout => Err("recovery or the reads after it did not finish within 8 s (hang)".into()),
    }
}

// ---------------------------------------------------------------------------------------------
// models of acknowledged operations

fn apply(m: &mut Kv, op: Op) {
    match op {
        Op::Set(k, v) => {
            m.insert(key_bytes(k), val_bytes(v));
        }
        Op::Del(k) => {
            m.remove(&key_bytes(k));
        }
        Op::Fill(n, g) => {
            for i in 0..n as usize {
                m.insert(e1::bulk_key(i), e1::bulk_val(g, i));
            }
        }
        Op::Drain(n, st) => {
            for i in (0..n as usize).step_by(st.max(1) as usize) {
                m.remove(&e1::bulk_key(i));
            }
        }
        _ => {}
    }
}

/// One recovery round and no "life goes on" phase (the many crash points of a bulk workload).
static RECOVER_LIGHT: std::sync::atomic::AtomicBool = std::sync::atomic::AtomicBool::new(false);
/// shard * 1000 + number of shards: which crash points of the current workload this worker takes.
static BULK_SHARD: std::sync::atomic::AtomicUsize = std::sync::atomic::AtomicUsize::new(1);
/// Number of bulk keys (f00000 ..) the recoveries of the current workload read back as well.
static BULK_N: std::sync::atomic::AtomicUsize = std::sync::atomic::AtomicUsize::new(0);

/// Judge the bulk keys read after a recovery: '0' absent, '1' / '2' the value of that generation.
fn judge_bulk(codes: &str, acked: &Kv, inflight: &[Op]) -> Option<(String, String)> {
    for (i, c) in codes.bytes().enumerate() {
        let k = e1::bulk_key(i);
        let got: Option<Vec<u8>> = match c {
            b'0' => None,
            b'1' => Some(e1::bulk_val(1, i)),
            b'2' => Some(e1::bulk_val(2, i)),
            _ => return Some(("read-wrong-value".into(), format!("bulk key {} reads neither as absent nor as one of its two values (code {})", hex(&k), c as char))),
        };
        let want = acked.get(&k).cloned();
        let mut alts = vec![want.clone()];
        for op in inflight {
            match *op {
                Op::Fill(n, g) if i < n as usize => alts.push(Some(e1::bulk_val(g, i))),
                Op::Drain(n, st) if i < n as usize && i % (st.max(1) as usize) == 0 => alts.push(None),
                _ => {}
            }
        }
        if !alts.contains(&got) {
            let class = match (&got, &want) {
                (Some(_), None) => "read-resurrected",
                (None, Some(_)) => "acknowledged-write-lost",
                _ => "read-wrong-value",
            };
            let bad = codes.bytes().enumerate().filter(|(j, c)| {
                let w = acked.get(&e1::bulk_key(*j));
                let g = match c { b'0' => None, b'1' => Some(e1::bulk_val(1, *j)), b'2' => Some(e1::bulk_val(2, *j)), _ => Some(vec![]) };
                w.cloned() != g
            }).count();
            return Some((class.into(), format!("get({}) = {:?}, acceptable: {:?} ({} of {} bulk keys differ from the acknowledged state)", hex(&k), got.as_ref().map(|v| hex(v)), alts.iter().map(|a| a.as_ref().map(|v| hex(v))).collect::<Vec<_>>(), bad, codes.len())));
        }
    }
    None
}
fn op_key(op: Op) -> Option<Vec<u8>> {
    match op {
        Op::Set(k, _) | Op::Del(k) => Some(key_bytes(k)),
        _ => None,
    }
}

/// (model of acked ops, in-flight op) at log position `upto` (exclusive).
fn model_at(log: &[Call], upto: usize, word: &[Op]) -> (Kv, Option<Op>) {
    let mut m = Kv::new();
    let mut begun: Option<usize> = None;
    for c in &log[..upto] {
        if let Call::Mark(s) = c {
            if let Some(i) = s.strip_prefix("begin:") {
                begun = i.parse().ok();
            } else if let Some(i) = s.strip_prefix("ack:") {
                let i: usize = i.parse().unwrap();
                apply(&mut m, word[i]);
                begun = None;
            }
        }
    }
    (m, begun.map(|i| word[i]))
}

/// Judge the reads of a recovered store against "acked model, in-flight applied or not".
fn judge_reads(reads: &[Result<Option<Vec<u8>>, String>], acked: &Kv, inflight: &[Op]) -> Option<(String, String)> {
    for (i, &k) in KEYS.iter().enumerate() {
        let kb = key_bytes(k);
        let want = acked.get(&kb).cloned();
        let mut alts: Vec<Option<Vec<u8>>> = vec![want.clone()];
        // in-flight / failed operations on this key may have taken effect: any subsequence order is
        // not needed because at most one operation is in flight
        for op in inflight {
            if op_key(*op).as_ref() == Some(&kb) {
                let mut m2 = acked.clone();
                apply(&mut m2, *op);
                alts.push(m2.get(&kb).cloned());
            }
        }
        match &reads[i] {
            Ok(got) => {
                if !alts.contains(got) {
                    let class = match (got, &want) {
                        (Some(_), None) => "read-resurrected",
                        (None, Some(_)) => "acknowledged-write-lost",
                        _ => "read-wrong-value",
                    };
                    return Some((class.into(), format!("get({}) = {:?}, acceptable: {:?}", hex(&kb), got.as_ref().map(|v| hex(v)), alts.iter().map(|a| a.as_ref().map(|v| hex(v))).collect::<Vec<_>>())));
                }
            }
            Err(e) if e.contains("HANG") => return Some(("get-hangs-reader-lost".into(), format!("get({}) -> {}", hex(&kb), e))),
            Err(e) if e.contains("PANIC") => return Some(("get-panics-after-recovery".into(), format!("get({}) -> {}", hex(&kb), e))),
            Err(e) => return Some(("get-fails-after-recovery".into(), format!("get({}) -> {}", hex(&kb), e))),
        }
    }
    None
}

// ---------------------------------------------------------------------------------------------
// plans

pub struct Plan {
    pub alphabet: Vec<Op>,
    pub depth: usize,
    pub cfgs: Vec<Cfg>,
}

fn alphabet_full() -> Vec<Op> {
    vec![Op::Set(0, 0), Op::Set(0, 1), Op::Set(1, 0), Op::Set(1, 4), Op::Del(0), Op::Merge, Op::Reopen]
}

pub fn plan(mode: &str, tier: Tier) -> Plan {
    let mut cfgs = vec![];
    let sync = mode == "power";
    for mfs in [0u64, 60] {
        for thr in [Thr::All, Thr::Size27] {
            let mut c = Cfg::new(mfs, thr, 1);
            c.sync_always = sync;
            cfgs.push(c);
        }
    }
    {
        // a limit that one small entry fills EXACTLY (27 bytes: neither below nor above it)
        let mut c = Cfg::new(27, Thr::All, 1);
        c.sync_always = sync;
        cfgs.push(c);
    }
    if mode == "fault" {
        // the fsync of every append is a fallible call, too
        let mut c = Cfg::new(60, Thr::All, 1);
        c.sync_always = true;
        cfgs.push(c);
    }
    if tier == Tier::Thorough {
        // two small entries fill the file exactly
        let mut c = Cfg::new(54, Thr::All, 1);
        c.sync_always = sync;
        cfgs.push(c);
        for thr in [Thr::Dead, Thr::All] {
            let mut c = Cfg::new(if thr == Thr::All { e1::MFS_BIG } else { 60 }, thr, 2);
            c.sync_always = sync;
            cfgs.push(c);
        }
    }
    let depth = match mode {
        "crash" => tier.pick(4, 5),
        "power" => tier.pick(3, 4),
        "fault" => tier.pick(3, 4),
        "c14" => tier.pick(3, 4),
        "space" => tier.pick(3, 4),
        _ => 3,
    };
    if mode == "space" {
        // C13 after a failed operation: every file is eligible (ALL), rollover at every entry / every third
        let cfgs = vec![Cfg::new(0, Thr::All, 1), Cfg::new(60, Thr::All, 1)];
        return Plan { alphabet: vec![Op::Set(0, 0), Op::Set(0, 1), Op::Set(1, 4), Op::Del(0), Op::Merge], depth, cfgs };
    }
    Plan { alphabet: alphabet_full(), depth, cfgs }
}

/// All words of the plan: the full alphabet up to `depth`, plus (value SHAPES) every word one
/// shorter that contains a set of the EMPTY value or of a value made of CR LF NUL 0xFF at least once.
fn plan_words(p: &Plan) -> Vec<Vec<Op>> {
    let mut words = words_upto(&p.alphabet, p.depth);
    if p.depth >= 2 {
        let mut wide = p.alphabet.clone();
        let shapes = [Op::Set(0, 2), Op::Set(1, 3), Op::Set(6, 0)];
        wide.extend(shapes);
        for w in words_upto(&wide, p.depth - 1) {
            if w.iter().any(|o| shapes.contains(o)) {
                words.push(w);
            }
        }
    }
    // every prefix of a few LONG structured histories (more than ten files, several merges and
    // reopens in a row, a merge of merge outputs): each prefix is a word, so every operation of the
    // history gets its crash points / fault positions
    let a1 = Op::Set(0, 0);
    let a2 = Op::Set(0, 1);
    let b1 = Op::Set(1, 0);
    let bb = Op::Set(1, 4);
    let da = Op::Del(0);
    let db = Op::Del(1);
    let histories: Vec<Vec<Op>> = vec![
        vec![a1, b1, a2, db, b1, a1, Op::Merge, a2, da, Op::Merge, Op::Reopen, b1, Op::Merge, Op::Merge, Op::Reopen, a1],
        vec![a1, a2, a1, a2, b1, a1, a2, a1, a2, a1, b1, a2, Op::Merge, a1, Op::Reopen, Op::Merge, da, Op::Reopen],
        vec![bb, a1, Op::Merge, bb, da, Op::Merge, Op::Reopen, Op::Reopen, a2, Op::Merge],
    ];
    // file ids with different numbers of digits (9 / 10, 99 / 100) among the files one merge removes:
    // the value in the lower, the tombstone in the higher
    let mut histories = histories;
    for pre in [8usize, 9, 98, 99] {
        let mut h = vec![Op::Reopen; pre];
        h.extend([a1, da, Op::Merge, Op::Reopen]);
        histories.push(h);
    }
    let have: std::collections::HashSet<Vec<Op>> = words.iter().cloned().collect();
    for h in histories {
        let lead = h.iter().take_while(|o| **o == Op::Reopen).count();
        for k in (p.depth + 1).max(lead + 1)..=h.len() {
            if !have.contains(&h[..k]) {
                words.push(h[..k].to_vec());
            }
        }
    }
    words
}

fn words_upto(alpha: &[Op], depth: usize) -> Vec<Vec<Op>> {
    let mut out: Vec<Vec<Op>> = vec![vec![]];
    let mut frontier: Vec<Vec<Op>> = vec![vec![]];
    for _ in 0..depth {
        let mut next = vec![];
        for w in &frontier {
            for a in alpha {
                let mut w2 = w.clone();
                w2.push(*a);
                next.push(w2);
            }
        }
        out.extend(next.iter().cloned());
        frontier = next;
    }
    out
}

fn case_json(mode: &str, cfg: &Cfg, word: &[Op], extra: Value) -> Value {
    json!({"engine": "crash", "mode": mode, "cfg": cfg.to_json(), "word": word_json(word), "word_text": show_word(word), "at": extra})
}

// ---------------------------------------------------------------------------------------------
// the three enumerations

struct Ctx<'a> {
    sh: &'a mut Shard,
    prop: &'a str,
    live: PathBuf,
    rdir: PathBuf,
}

fn max_id_in(calls: &[Call]) -> Option<u64> {
    calls.iter().filter_map(|c| if let Call::Create { path, .. } = c { parse_name(path).map(|x| x.0) } else { None }).max()
}

/// Crash points of the last operation of `word` (or of the initial open for the empty word):
/// log positions `upto` such that exactly the calls before `upto` have happened.
fn crash_positions(log: &[Call], word: &[Op]) -> Vec<usize> {
    let start = if word.is_empty() {
        0
    } else {
        let tag = format!("begin:{}", word.len() - 1);
        log.iter().position(|c| matches!(c, Call::Mark(m) if *m == tag)).unwrap_or(0)
    };
    let mut v: Vec<usize> = (start..log.len()).filter(|&i| log[i].is_mutating()).collect();
    // and "after everything"
    v.push(log.len());
    // the position of the first mutating call of this op means "before it": that state equals the
    // final state of the shorter word (already covered) except for the begin marker: keep it, it is
    // the state "operation started, nothing written"
    v
}

fn validate_materializer(cx: &mut Ctx, rec: &Recorded, cfg: &Cfg, word: &[Op]) -> bool {
    let full = materialize(&rec.log, &BTreeMap::new());
    if full != rec.live_dir {
        let f = |m: &BTreeMap<String, Vec<u8>>| m.iter().map(|(k, v)| (k.clone(), v.len())).collect::<Vec<_>>();
        cx.sh.machinery_errors.push(format!("materialiser mismatch for {} under {:?}: live {:?} vs rebuilt {:?}", show_word(word), cfg, f(&rec.live_dir), f(&full)));
        return false;
    }
    true
}

fn run_crash(cx: &mut Ctx, cfg: Cfg, word: &[Op], power: bool, byte_granular: bool) {
    BULK_N.store(word.iter().map(|o| if let Op::Fill(n, _) | Op::Drain(n, _) = o { *n as usize } else { 0 }).max().unwrap_or(0), std::sync::atomic::Ordering::SeqCst);
    let rec = record(cfg, word, &cx.live, None);
    cx.sh.transitions += word.len() as u64;
    if let Some(m) = &rec.open_failed {
        cx.sh.violate(Violation { class: format!("{}:workload-open-failed", cx.prop), msg: m.clone(), case: case_json("crash", &cfg, word, json!(null)) });
        return;
    }
    if let Some(i) = rec.results.iter().position(|r| !r.starts_with("ok")) {
        cx.sh.violate(Violation { class: format!("{}:workload-op-failed-without-any-fault", cx.prop), msg: format!("{} -> {} in {} under {:?}", word[i].show(), rec.results[i], show_word(word), cfg), case: case_json("crash", &cfg, word, json!({"op": i})) });
        return;
    }
    if !validate_materializer(cx, &rec, &cfg, word) {
        return;
    }
    let mode = if power { "power" } else { "crash" };
    let (my_shard, n_shards) = { let x = BULK_SHARD.load(std::sync::atomic::Ordering::SeqCst); (x / 1000, (x % 1000).max(1)) };
    let rounds = if RECOVER_LIGHT.load(std::sync::atomic::Ordering::SeqCst) { 1 } else { 2 };
    for (pi, upto) in crash_positions(&rec.log, word).into_iter().enumerate() {
        if pi % n_shards != my_shard {
            continue;
        }
        let pre = &rec.log[..upto];
        let (acked, inflight) = model_at(&rec.log, upto, word);
        let infl: Vec<Op> = inflight.into_iter().collect();
        let mut cuts: Vec<BTreeMap<String, usize>> = vec![BTreeMap::new()];
        if power {
            // per file: durable length between its synced length and its current length
            let mut len: BTreeMap<String, usize> = BTreeMap::new();
            let mut synced: BTreeMap<String, usize> = BTreeMap::new();
            let mut bounds: BTreeMap<String, Vec<usize>> = BTreeMap::new();
            for c in pre {
                match c {
                    Call::Create { path, .. } => {
                        len.insert(path.clone(), 0);
                        synced.insert(path.clone(), 0);
                        bounds.insert(path.clone(), vec![0]);
                    }
                    Call::Write { path, data } => {
                        if let Some(l) = len.get_mut(path) {
                            *l += data.len();
                            bounds.get_mut(path).unwrap().push(*l);
                        }
                    }
                    Call::Fsync { path } => {
                        if let Some(l) = len.get(path) {
                            synced.insert(path.clone(), *l);
                        }
                    }
                    Call::Unlink { path } => {
                        len.remove(path);
                        synced.remove(path);
                        bounds.remove(path);
                    }
                    _ => {}
                }
            }
            for (p, bs) in &bounds {
                let s = synced[p];
                let l = len[p];
                let mut opts: BTreeSet<usize> = bs.iter().cloned().filter(|&x| x >= s).collect();
                opts.insert(s);
                opts.insert(l);
                if byte_granular && l - s <= 64 {
                    opts.extend(s..=l);
                } else if byte_granular {
                    // long tails: every byte of the first and last 40, plus write boundaries
                    opts.extend(s..=(s + 40).min(l));
                    opts.extend(l.saturating_sub(40).max(s)..=l);
                }
                if opts.len() > 1 {
                    let mut next = vec![];
                    for c in &cuts {
                        for &o in &opts {
                            let mut c2 = c.clone();
                            if o != l {
                                c2.insert(p.clone(), o);
                            }
                            next.push(c2);
                        }
                    }
                    cuts = next;
                    if cuts.len() > 20_000 {
                        cx.sh.notes.insert("loss-vector product capped at 20 000 per crash point".into());
                        cuts.truncate(20_000);
                        cx.sh.capped = true;
                    }
                }
            }
        }
        let max_id = max_id_in(pre);
        if power && !byte_granular {
            // quick tier: in addition to the full product at write boundaries, every BYTE of every
            // unsynced tail of up to 80 bytes, one file at a time (the others keep everything)
            let mut len: BTreeMap<String, usize> = BTreeMap::new();
            let mut synced: BTreeMap<String, usize> = BTreeMap::new();
            for c in pre {
                match c {
                    Call::Create { path, .. } => {
                        len.insert(path.clone(), 0);
                        synced.insert(path.clone(), 0);
                    }
                    Call::Write { path, data } => {
                        if let Some(l) = len.get_mut(path) {
                            *l += data.len();
                        }
                    }
                    Call::Fsync { path } => {
                        if let Some(l) = len.get(path) {
                            synced.insert(path.clone(), *l);
                        }
                    }
                    Call::Unlink { path } => {
                        len.remove(path);
                        synced.remove(path);
                    }
                    _ => {}
                }
            }
            for (p, l) in &len {
                let s0 = synced[p];
                if *l > s0 && *l - s0 <= 80 {
                    for x in (s0 + 1)..*l {
                        let mut c = BTreeMap::new();
                        c.insert(p.clone(), x);
                        if !cuts.contains(&c) {
                            cuts.push(c);
                        }
                    }
                }
            }
        }
        for cut in &cuts {
            let files = materialize(pre, cut);
            write_dir(&cx.rdir, &files);
            cx.sh.evaluations += 1;
            let mut fp = format!("{:?}|", cfg).into_bytes();
            for (n, bts) in &files {
                fp.extend_from_slice(n.as_bytes());
                fp.extend_from_slice(&fnv(&strip_tstamps(n, bts)).to_le_bytes());
            }
            let fph = fnv(&fp);
            cx.sh.states.insert(fph);
            if !infl.is_empty() || !cut.is_empty() {
                cx.sh.nontrivial.insert(fph);
            }
            let at = json!({"upto": upto, "after_call": pre.iter().rev().find(|c| c.is_mutating()).map(|c| c.short()), "cut": cut});
            let r = recover_in_child(&cx.rdir, cfg, max_id, rounds);
            let verdict: Option<(String, String)> = match &r {
                Err(e) => Some((if e.contains("hang") { "recovery-hangs".into() } else { "recovery-aborts-the-process".into() }, e.clone())),
                Ok(rv) => {
                    if let Some(e) = &rv.error {
                        Some((if e.contains("PANIC") { "recovery-panics".into() } else { "directory-cannot-be-opened".into() }, e.clone()))
                    } else {
                        let mut v = None;
                        for (round, rd) in rv.reads.iter().enumerate() {
                            if let Some((c, m)) = judge_reads(rd, &acked, &infl) {
                                v = Some((c, format!("{} (recovery round {})", m, round + 1)));
                                break;
                            }
                        }
                        if v.is_none() && !rv.bulk.is_empty() {
                            v = judge_bulk(&rv.bulk, &acked, &infl);
                        }
                        if v.is_none() {
                            if let Some(post) = &rv.post {
                                let want: Vec<Result<Option<Vec<u8>>, String>> = vec![Ok(Some(b"post-crash".to_vec())), Ok(None), Ok(None)];
                                // (the fourth key, the 9000-byte one, is not touched by these writes)
                                if post.len() < 3 || post[..3] != want[..] {
                                    v = Some(("writes-after-recovery-lost".into(), format!("after recovery: set(a, post-crash), del(b), restart -> reads {:?}, expected [post-crash, nil, nil]", post.iter().map(|x| match x { Ok(Some(v)) => hex(v), Ok(None) => "nil".into(), Err(e) => format!("ERR {}", e) }).collect::<Vec<_>>())));
                                }
                            }
                        }
                        v
                    }
                }
            };
            let outcome = match (&verdict, &r) {
                (Some((c, _)), _) => c.clone(),
                (None, Ok(rv)) => format!("ok:{}", rv.reads.first().map(|rd| rd.iter().map(|x| match x { Ok(Some(v)) => hex(v), Ok(None) => "nil".into(), Err(_) => "err".into() }).collect::<Vec<_>>().join(",")).unwrap_or_default()),
                _ => "?".into(),
            };
            cx.sh.outcome(outcome);
            if let Some((class, msg)) = verdict {
                let class = classify_crash(&class, pre, cut, power);
                cx.sh.violate(Violation { class: format!("{}:{}", cx.prop, class), msg: format!("{} | {} of {} under {:?} | crash {}", msg, mode, show_word(word), cfg, at), case: case_json(mode, &cfg, word, at.clone()) });
            }
            if cx.prop == "C14" {
                if let Ok(rv) = &r {
                    for (c, m) in &rv.trace_violations {
                        cx.sh.violate(Violation { class: c.clone(), msg: format!("{} | recovery of crash {} of {} under {:?}", m, at, show_word(word), cfg), case: case_json(mode, &cfg, word, at.clone()) });
                    }
                }
            }
        }
    }
    if cx.sh.samples.len() < 2 {
        cx.sh.samples.push(json!({"cfg": cfg.to_json(), "word": show_word(word), "calls": rec.log.iter().map(|c| c.short()).collect::<Vec<_>>()}));
    }
}

/// TWO crashes: a crash inside the last operation of `word1`, recovery, the continuation `cont`
/// through the recovered store, a second crash at every call boundary of the continuation, recovery
/// again. What the first recovery read (already judged by the single-crash enumeration) is the
/// model the continuation starts from.
fn run_double_crash(cx: &mut Ctx, cfg: Cfg, word1: &[Op], cont: &[Op]) {
    let rec = record(cfg, word1, &cx.live, None);
    if rec.open_failed.is_some() || rec.results.iter().any(|r| !r.starts_with("ok")) {
        return; // reported by the single-crash pass
    }
    let live2 = cx.live.with_extension("second");
    for upto in crash_positions(&rec.log, word1) {
        let pre = &rec.log[..upto];
        let files1 = materialize(pre, &BTreeMap::new());
        write_dir(&cx.rdir, &files1);
        let (acked1, inflight1) = model_at(&rec.log, upto, word1);
        let infl1: Vec<Op> = inflight1.into_iter().collect();
        let r1 = match recover_in_child(&cx.rdir, cfg, max_id_in(pre), 1) {
            Ok(r) if r.error.is_none() && !r.reads.is_empty() => r,
            _ => continue, // reported by the single-crash pass
        };
        if judge_reads(&r1.reads[0], &acked1, &infl1).is_some() {
            continue; // reported by the single-crash pass
        }
        // the state the survivors see: the continuation's model starts here
        let mut base = Kv::new();
        for (i, &k) in KEYS.iter().enumerate() {
            if let Ok(Some(v)) = &r1.reads[0][i] {
                base.insert(key_bytes(k), v.clone());
            }
        }
        let rec2 = record_from(cfg, cont, &live2, &files1);
        cx.sh.transitions += cont.len() as u64;
        let at1 = json!({"upto": upto, "after_call": pre.iter().rev().find(|c| c.is_mutating()).map(|c| c.short())});
        let ctx_txt = |cx: &Ctx| format!("first crash {} of {}, recovered, then {} under {:?}", at1, show_word(word1), show_word(cont), cfg);
        let case = |extra: Value| json!({"engine": "crash", "mode": "double", "cfg": cfg.to_json(), "word": word_json(word1), "cont": word_json(cont), "word_text": format!("{} || {}", show_word(word1), show_word(cont)), "at": {"first": at1, "second": extra}});
        if let Some(m) = &rec2.open_failed {
            cx.sh.violate(Violation { class: format!("{}:directory-cannot-be-opened", cx.prop), msg: format!("{} | {}", m, ctx_txt(cx)), case: case(json!(null)) });
            continue;
        }
        if let Some(i) = rec2.results.iter().position(|r| !r.starts_with("ok")) {
            cx.sh.violate(Violation { class: format!("{}:operation-fails-after-recovery", cx.prop), msg: format!("{} -> {} | {}", cont[i].show(), rec2.results[i], ctx_txt(cx)), case: case(json!({"op": i})) });
            continue;
        }
        // the continuation itself, crash-free, reads as base + continuation
        {
            let mut m = base.clone();
            for (i, op) in cont.iter().enumerate() {
                apply(&mut m, *op);
                if let Some(rd) = rec2.reads.get(i) {
                    if let Some((c, msg)) = judge_reads(rd, &m, &[]) {
                        cx.sh.violate(Violation { class: format!("{}:{}-after-recovery", cx.prop, c), msg: format!("after {}: {} | {}", op.show(), msg, ctx_txt(cx)), case: case(json!({"op": i})) });
                    }
                }
            }
        }

        let first_op = rec2.log.iter().position(|c| matches!(c, Call::Mark(m) if m == "begin:0")).unwrap_or(rec2.log.len());
        let mut positions: Vec<usize> = (first_op..rec2.log.len()).filter(|&i| rec2.log[i].is_mutating()).collect();
        positions.push(rec2.log.len());
        for upto2 in positions {
            let files2 = materialize_from(&files1, &rec2.log[..upto2]);
            write_dir(&cx.rdir, &files2);
            cx.sh.evaluations += 1;
            let (acked2, inflight2) = model_at(&rec2.log, upto2, cont);
            let _ = acked2;
            // acked operations of the continuation applied to the base
            let mut m = base.clone();
            for c in &rec2.log[..upto2] {
                if let Call::Mark(s) = c {
                    if let Some(i) = s.strip_prefix("ack:") {
                        apply(&mut m, cont[i.parse::<usize>().unwrap()]);
                    }
                }
            }
            let infl2: Vec<Op> = inflight2.into_iter().collect();
            let mut fp = format!("double|{:?}|", cfg).into_bytes();
            for (n, bts) in &files2 {
                fp.extend_from_slice(n.as_bytes());
                fp.extend_from_slice(&fnv(&strip_tstamps(n, bts)).to_le_bytes());
            }
            let fph = fnv(&fp);
            cx.sh.states.insert(fph);
            cx.sh.nontrivial.insert(fph);
            let at2 = json!({"upto": upto2, "after_call": rec2.log[..upto2].iter().rev().find(|c| c.is_mutating()).map(|c| c.short())});
            // every id the directory has contained up to the second crash
            let max_id2 = max_id_in(pre).into_iter().chain(max_id_in(&rec2.log[..upto2])).max();
            let r2 = recover_in_child(&cx.rdir, cfg, max_id2, 1);
            let verdict: Option<(String, String)> = match &r2 {
                Err(e) => Some((if e.contains("hang") { "recovery-hangs".into() } else { "recovery-aborts-the-process".into() }, e.clone())),
                Ok(rv) => {
                    if let Some(e) = &rv.error {
                        Some((if e.contains("PANIC") { "recovery-panics".into() } else { "directory-cannot-be-opened".into() }, e.clone()))
                    } else {
                        rv.reads.first().and_then(|rd| judge_reads(rd, &m, &infl2))
                    }
                }
            };
            cx.sh.outcome(match &verdict {
                Some((c, _)) => format!("double:{}", c),
                None => "double:ok".into(),
            });
            if let Some((class, msg)) = verdict {
                cx.sh.violate(Violation { class: format!("{}:{}[second-crash]", cx.prop, class), msg: format!("{} | second crash {} | {}", msg, at2, ctx_txt(cx)), case: case(at2.clone()) });
            }
            if cx.prop == "C14" {
                if let Ok(rv) = &r2 {
                    for (c, mm) in &rv.trace_violations {
                        cx.sh.violate(Violation { class: c.clone(), msg: format!("{} | recovery of the second crash {} | {}", mm, at2, ctx_txt(cx)), case: case(at2.clone()) });
                    }
                }
            }
        }
    }
    rmrf(&live2);
}

/// C09 over FAULTED histories: one injected failure (EIO) at a mutating call of a history under
/// sync=always, the rest of the history, then power is lost after each later acknowledgement with
/// every byte not yet forced to stable storage gone (every file back to its last completed fsync).
/// Every acknowledged set / delete must still read; the failed operation may or may not have happened.
fn run_fault_power(cx: &mut Ctx, cfg: Cfg, word: &[Op]) {
    let base = record(cfg, word, &cx.live, None);
    if base.open_failed.is_some() || base.results.iter().any(|r| !r.starts_with("ok")) {
        return; // reported elsewhere
    }
    let first_begin = base.log.iter().position(|c| matches!(c, Call::Mark(m) if m == "begin:0")).unwrap_or(0);
    let npos = base.log.iter().skip(first_begin).filter(|c| c.is_mutating()).count();
    for pos in 1..=npos {
        let rec = record(cfg, word, &cx.live, Some((pos, FaultKind::Errno(libc::EIO))));
        let Some(fo) = rec.fault_op else { continue };
        if rec.open_failed.is_some() {
            continue;
        }
        cx.sh.transitions += 1;
        // power-loss moments: right after the failed operation returned, and after each later operation
        let mut moments: Vec<(usize, usize)> = vec![]; // (log position, number of operations completed)
        let mut done = 0usize;
        for (i, c) in rec.log.iter().enumerate() {
            if let Call::Mark(m) = c {
                if m.starts_with("begin:") {
                    let k: usize = m[6..].parse().unwrap_or(0);
                    if k > fo {
                        moments.push((i, k));
                    }
                    done = k;
                }
            }
        }
        let _ = done;
        moments.push((rec.log.len(), rec.results.len()));
        for (upto, ops_done) in moments {
            let pre = &rec.log[..upto];
            // model: acknowledged operations in order, failed ones (not superseded) may have happened
            let mut m = Kv::new();
            let mut maybe: Vec<Op> = vec![];
            for (i, op) in word.iter().enumerate().take(ops_done.min(rec.results.len())) {
                if rec.results[i].starts_with("ok") {
                    apply(&mut m, *op);
                    maybe.retain(|f| op_key(*f) != op_key(*op) || op_key(*op).is_none());
                } else {
                    maybe.push(*op);
                }
            }
            // every file back to its last completed fsync
            let mut len: BTreeMap<String, usize> = BTreeMap::new();
            let mut synced: BTreeMap<String, usize> = BTreeMap::new();
            for c in pre {
                match c {
                    Call::Create { path, .. } => {
                        len.insert(path.clone(), 0);
                        synced.insert(path.clone(), 0);
                    }
                    Call::Write { path, data } => {
                        if let Some(l) = len.get_mut(path) {
                            *l += data.len();
                        }
                    }
                    Call::Fsync { path } => {
                        if let Some(l) = len.get(path) {
                            synced.insert(path.clone(), *l);
                        }
                    }
                    Call::Unlink { path } => {
                        len.remove(path);
                        synced.remove(path);
                    }
                    _ => {}
                }
            }
            let cut: BTreeMap<String, usize> = len.iter().filter(|(p, l)| synced[*p] < **l).map(|(p, _)| (p.clone(), synced[p])).collect();
            let files = materialize(pre, &cut);
            write_dir(&cx.rdir, &files);
            cx.sh.evaluations += 1;
            let mut fp = format!("fp|{:?}|", cfg).into_bytes();
            for (n, bts) in &files {
                fp.extend_from_slice(n.as_bytes());
                fp.extend_from_slice(&fnv(&strip_tstamps(n, bts)).to_le_bytes());
            }
            cx.sh.states.insert(fnv(&fp));
            cx.sh.nontrivial.insert(fnv(&fp));
            let at = json!({"fault_at_mutating_call": pos, "failed_op": fo, "power_lost_after_ops": ops_done, "cut": cut});
            let r = recover_in_child(&cx.rdir, cfg, max_id_in(pre), 1);
            let verdict: Option<(String, String)> = match &r {
                Err(e) => Some((if e.contains("hang") { "recovery-hangs".into() } else { "recovery-aborts-the-process".into() }, e.clone())),
                Ok(rv) => {
                    if let Some(e) = &rv.error {
                        Some((if e.contains("PANIC") { "recovery-panics".into() } else { "directory-cannot-be-opened".into() }, e.clone()))
                    } else {
                        rv.reads.first().and_then(|rd| judge_reads(rd, &m, &maybe))
                    }
                }
            };
            cx.sh.outcome(match &verdict {
                Some((c, _)) => format!("faulted-power:{}", c),
                None => "faulted-power:ok".into(),
            });
            if let Some((class, msg)) = verdict {
                if std::env::var("VH_DEBUG_LOG").is_ok() {
                    eprintln!("LOG: {:?}", rec.log.iter().map(|c| c.short()).collect::<Vec<_>>());
                }
                cx.sh.violate(Violation {
                    class: format!("{}:{}[after-a-failed-call]", cx.prop, class),
                    msg: format!("{} | {} under {:?}: mutating call {} failed with EIO in op {} ({} -> {}), power lost after {} operations with everything unsynced gone {:?}; results {:?}; directory after the loss {:?}", msg, show_word(word), cfg, pos, fo, word[fo].show(), rec.results[fo], ops_done, cut, rec.results, files.iter().map(|(n, b)| format!("{}:{}", n, b.len())).collect::<Vec<_>>()),
                    case: case_json("faultpower", &cfg, word, at),
                });
            }
        }
    }
}

/// (first history, continuation) pairs of the double-crash enumeration.
fn double_crash_pairs(tier: Tier) -> Vec<(Vec<Op>, Vec<Op>)> {
    let a1 = Op::Set(0, 0);
    let b1 = Op::Set(1, 0);
    let bb = Op::Set(1, 4);
    let da = Op::Del(0);
    let db = Op::Del(1);
    let mut firsts: Vec<Vec<Op>> = vec![vec![Op::Merge], vec![a1, Op::Merge], vec![b1, Op::Merge], vec![bb, Op::Merge], vec![da, Op::Merge], vec![a1, b1, Op::Merge], vec![a1, bb, Op::Merge], vec![a1, da, Op::Merge], vec![bb], vec![a1, bb]];
    let mut conts: Vec<Vec<Op>> = vec![vec![db, Op::Merge], vec![da, Op::Merge]];
    if tier == Tier::Thorough {
        firsts.extend(vec![vec![a1, Op::Set(0, 1), Op::Merge], vec![b1, db, Op::Merge], vec![a1, Op::Merge, Op::Merge], vec![a1, Op::Reopen, Op::Merge], vec![bb, a1, Op::Merge, da], vec![a1, b1]]);
        conts.extend(vec![vec![Op::Merge], vec![a1, Op::Merge], vec![bb, Op::Merge], vec![db, Op::Merge, Op::Merge], vec![da, Op::Reopen, Op::Merge]]);
    }
    let mut out = vec![];
    for f in &firsts {
        for c in &conts {
            out.push((f.clone(), c.clone()));
        }
    }
    out
}

/// Drop the i64 timestamps so that fingerprints of directories do not depend on wall-clock time.
fn strip_tstamps(name: &str, bytes: &[u8]) -> Vec<u8> {
    let mut out = bytes.to_vec();
    if name.ends_with(".data") {
        let (ents, _) = crate::model::decode_data(bytes);
        for e in ents {
            for x in &mut out[e.pos as usize..e.pos as usize + 8] {
                *x = 0;
            }
        }
    } else if name.ends_with(".hint") {
        // hint entries: tstamp at the start of each record; records are 32 + klen bytes
        let (ents, _) = crate::model::decode_hint(bytes);
        let mut p = 0usize;
        for e in ents {
            for x in &mut out[p..p + 8] {
                *x = 0;
            }
            p += 32 + e.key.len();
        }
    }
    out
}

/// Root-cause classes for crash / power violations (matched against known_findings.json).
fn classify_crash(class: &str, pre: &[Call], cut: &BTreeMap<String, usize>, power: bool) -> String {
    if !power {
        return class.to_string();
    }
    // power loss: did a hint file keep records whose data file lost bytes?
    let files_full = materialize(pre, &BTreeMap::new());
    let files_cut = materialize(pre, cut);
    let mut hint_beyond_data = false;
    for (n, bts) in &files_cut {
        if let Some((id, false)) = parse_name(n) {
            let dlen = files_cut.get(&format!("{}.bitcask.data", id)).map(|d| d.len()).unwrap_or(0) as u64;
            let (ents, _) = crate::model::decode_hint(bts);
            if ents.iter().any(|e| e.pos + e.len > dlen) {
                hint_beyond_data = true;
            }
        }
    }
    let lost_merge_output = cut.iter().any(|(f, l)| files_full.get(f).map_or(false, |full| *l < full.len()) && files_full.contains_key(&f.replace(".data", ".hint")) && f.ends_with(".data"));
    if hint_beyond_data {
        format!("{}[hint-record-beyond-end-of-data-file]", class)
    } else if lost_merge_output {
        format!("{}[merge-output-lost-after-sources-unlinked]", class)
    } else {
        class.to_string()
    }
}

fn run_fault(cx: &mut Ctx, cfg: Cfg, word: &[Op], last_op_only: bool) {
    let base = record(cfg, word, &cx.live, None);
    cx.sh.transitions += word.len() as u64;
    if base.open_failed.is_some() || base.results.iter().any(|r| !r.starts_with("ok")) {
        cx.sh.violate(Violation { class: format!("{}:workload-op-failed-without-any-fault", cx.prop), msg: format!("{:?} in {} under {:?}", base.results, show_word(word), cfg), case: case_json("fault", &cfg, word, json!(null)) });
        return;
    }
    // positions: mutating calls after the initial open
    let first_begin = base.log.iter().position(|c| matches!(c, Call::Mark(m) if m == "begin:0")).unwrap_or(0);
    let last_begin = {
        let tag = format!("begin:{}", word.len().saturating_sub(1));
        base.log.iter().position(|c| matches!(c, Call::Mark(m) if *m == tag)).unwrap_or(0)
    };
    let mut n = 0usize;
    let mut positions: Vec<(usize, Call)> = vec![];
    for (i, c) in base.log.iter().enumerate().skip(first_begin) {
        if c.is_mutating() {
            n += 1;
            if !last_op_only || i >= last_begin {
                positions.push((n, c.clone()));
            }
        }
    }
    for (pos, call) in positions {
        let mut kinds: Vec<FaultKind> = vec![FaultKind::Errno(libc::EIO)];
        match &call {
            Call::Write { data, .. } => {
                kinds.push(FaultKind::Errno(libc::ENOSPC));
                if data.len() > 1 {
                    if data.len() <= 64 {
                        for k in [1, data.len() / 2, data.len() - 1] {
                            if !kinds.contains(&FaultKind::Short(k)) {
                                kinds.push(FaultKind::Short(k));
                            }
                        }
                    } else {
                        kinds.push(FaultKind::Short(data.len() / 2));
                    }
                }
            }
            Call::Create { .. } => kinds.push(FaultKind::Errno(libc::ENOSPC)),
            _ => {}
        }
        for kind in kinds {
            cx.sh.evaluations += 1;
            let at = json!({"fault_at_mutating_call": pos, "call": call.short(), "kind": format!("{:?}", kind)});
            let rec = match record_in_child(cfg, word, &cx.live, Some((pos, kind))) {
                Ok(r) => r,
                Err(e) => {
                    let class = classify_fault(if e.contains("hang") { "workload-hangs-after-fault" } else { "process-aborts-after-fault" }, word, None, &call);
                    cx.sh.violate(Violation { class: format!("{}:{}", cx.prop, class), msg: format!("{} | {} under {:?} | {}", e, show_word(word), cfg, at), case: case_json("fault", &cfg, word, at.clone()) });
                    continue;
                }
            };
            let mut verdicts: Vec<(String, String)> = vec![];
            let fp = fnv(format!("{:?}|{:?}|{}|{:?}", cfg, word, pos, kind).as_bytes());
            cx.sh.states.insert(fnv(format!("{:?}{:?}", rec.results, rec.live_dir.iter().map(|(k, v)| (k.clone(), fnv(&strip_tstamps(k, v)))).collect::<Vec<_>>()).as_bytes()));
            cx.sh.nontrivial.insert(fp);
            if let FaultKind::Short(_) = kind {
                // benign deviation: must change nothing at all
                if rec.results != base.results || rec.reads != base.reads {
                    verdicts.push(("short-write-changed-behaviour".into(), format!("results {:?} vs {:?}", rec.results, base.results)));
                }
                let strip = |m: &BTreeMap<String, Vec<u8>>| m.iter().map(|(k, v)| (k.clone(), strip_tstamps(k, v))).collect::<BTreeMap<_, _>>();
                if strip(&rec.live_dir) != strip(&base.live_dir) {
                    verdicts.push(("short-write-changed-directory".into(), "directory differs from the fault-free run".into()));
                }
                cx.sh.outcome("short-write".into());
            } else {
                let fo = rec.fault_op;
                match fo {
                    None => {
                        cx.sh.machinery_errors.push(format!("armed fault #{} never fired in {} under {:?}", pos, show_word(word), cfg));
                        continue;
                    }
                    Some(fo) => {
                        // the failed operation must report the failure
                        if rec.results[fo].starts_with("ok") {
                            verdicts.push(("fault-swallowed".into(), format!("{} returned {} although its {} failed", word[fo].show(), rec.results[fo], call.short())));
                        }
                        if let Some(i) = rec.results.iter().position(|r| r.starts_with("panic")) {
                            verdicts.push(("panic".into(), format!("{} -> {}", word[i].show(), rec.results[i])));
                        }
                        // every other operation must succeed
                        for (i, r) in rec.results.iter().enumerate() {
                            if i != fo && !r.starts_with("ok") && !r.starts_with("panic") {
                                verdicts.push(("later-fault-free-op-failed".into(), format!("{} (op {}) -> {} after a fault in op {} ({})", word[i].show(), i, r, fo, call.short())));
                                break;
                            }
                        }
                        // in-process reads after every op: model with the failed op applied or not
                        let mut m = Kv::new();
                        let mut maybe: Vec<Op> = vec![];
                        for (i, op) in word.iter().enumerate() {
                            if i >= rec.reads.len() {
                                break;
                            }
                            if rec.results[i].starts_with("ok") {
                                apply(&mut m, *op);
                                // a later acknowledged op on the same key supersedes the failed one
                                maybe.retain(|f| op_key(*f) != op_key(*op) || op_key(*op).is_none());
                            } else {
                                maybe.push(*op);
                            }
                            if let Op::Del(_) = op {
                                // return value of a later delete may reflect the failed op either way: not judged here
                            }
                            if rec.reads[i].len() == KEYS.len() {
                                if let Some((c, msg)) = judge_reads(&rec.reads[i], &m, &maybe) {
                                    verdicts.push((format!("running-store-{}", c), format!("after op {} ({}): {}", i, word[i].show(), msg)));
                                    break;
                                }
                            }
                        }
                        // after a restart
                        if rec.reads.len() == word.len() {
                            write_dir(&cx.rdir, &rec.live_dir);
                            match recover_in_child(&cx.rdir, cfg, None, 1) {
                                Err(e) => verdicts.push((if e.contains("hang") { "restart-hangs".into() } else { "restart-aborts-the-process".into() }, e)),
                                Ok(rv) => {
                                    if let Some(e) = rv.error {
                                        verdicts.push((if e.contains("PANIC") { "restart-panics".into() } else { "directory-cannot-be-opened".into() }, e));
                                    } else if let Some(rd) = rv.reads.first() {
                                        if let Some((c, msg)) = judge_reads(rd, &m, &maybe) {
                                            verdicts.push((format!("after-restart-{}", c), msg));
                                        }
                                    }
                                }
                            }
                        } else {
                            verdicts.push(("directory-cannot-be-opened".into(), "a failed reopen could not be retried".into()));
                        }
                        cx.sh.outcome(format!("{}:{}", call.short().split(' ').next().unwrap_or(""), rec.results.iter().map(|r| r.split(':').next().unwrap_or("")).collect::<Vec<_>>().join(",")));
                    }
                }
            }
            let mut seen = BTreeSet::new();
            for (class, msg) in verdicts {
                let class = classify_fault(&class, word, rec.fault_op, &call);
                if seen.insert(class.clone()) {
                    cx.sh.violate(Violation { class: format!("{}:{}", cx.prop, class), msg: format!("{} | {} under {:?} | {}", msg, show_word(word), cfg, at), case: case_json("fault", &cfg, word, at.clone()) });
                }
            }
        }
    }
}

/// EXPERIMENT, NOT WIRED INTO ANY CHECK (DESIGN 0.4, seed C13d): C13 beyond fault-free histories —
/// after ONE failed file-system call somewhere in the workload, a (fault-free) merge of every file
/// must still leave exactly the live pairs on disk. This demands more than C13 states (its
/// quantifier has no faults) and it raises an alarm on the unchanged tree (a merge whose copy fails
/// leaves an output file without statistics record, which no later merge selects), so it was
/// withdrawn as a check; it can be run by hand with pass name `e2:space`.
fn run_space(cx: &mut Ctx, cfg: Cfg, word: &[Op]) {
    let mut w2 = word.to_vec();
    w2.push(Op::Merge);
    w2.push(Op::Merge);
    let base = record(cfg, &w2, &cx.live, None);
    cx.sh.transitions += w2.len() as u64;
    if base.open_failed.is_some() || base.results.iter().any(|r| !r.starts_with("ok")) {
        return;
    }
    let first_begin = base.log.iter().position(|c| matches!(c, Call::Mark(m) if m == "begin:0")).unwrap_or(0);
    let end_tag = format!("begin:{}", word.len());
    let end = base.log.iter().position(|c| matches!(c, Call::Mark(m) if *m == end_tag)).unwrap_or(base.log.len());
    let mut n = 0usize;
    let mut positions: Vec<(usize, Call)> = vec![];
    for (i, c) in base.log.iter().enumerate().skip(first_begin) {
        if c.is_mutating() {
            n += 1;
            if i < end {
                positions.push((n, c.clone()));
            }
        }
    }
    let size_of = |files: &BTreeMap<String, Vec<u8>>| -> u64 { files.iter().filter(|(n, _)| n.ends_with(".data")).map(|(_, b)| b.len() as u64).sum() };
    for (pos, call) in positions {
        let mut kinds = vec![FaultKind::Errno(libc::EIO)];
        if let Call::Write { data, .. } = &call {
            if data.len() > 1 {
                kinds.push(FaultKind::Short(data.len() / 2));
            }
        }
        for kind in kinds {
            cx.sh.evaluations += 1;
            let at = json!({"fault_at_mutating_call": pos, "call": call.short(), "kind": format!("{:?}", kind)});
            let Ok(rec) = record_in_child(cfg, &w2, &cx.live, Some((pos, kind))) else { continue };
            cx.sh.nontrivial.insert(fnv(format!("{:?}|{:?}|{}|{:?}", cfg, word, pos, kind).as_bytes()));
            // judged only when both final merges succeeded and all reads are clean
            let k = w2.len();
            if rec.results.len() != k || !rec.results[k - 1].starts_with("ok") || !rec.results[k - 2].starts_with("ok") || rec.reads.len() != k {
                cx.sh.outcome("final-merge-failed-or-run-incomplete".into());
                continue;
            }
            let reads = &rec.reads[k - 1];
            if reads.iter().any(|r| r.is_err()) {
                continue;
            }
            let mut minimal = 0u64;
            for (i, &key) in KEYS.iter().enumerate() {
                if let Ok(Some(v)) = &reads[i] {
                    minimal += crate::model::entry_size(&key_bytes(key), v);
                }
            }
            let total = size_of(&rec.live_dir);
            cx.sh.states.insert(fnv(format!("{}|{}|{:?}", total, minimal, rec.results).as_bytes()));
            cx.sh.outcome(if total == minimal { "minimal".into() } else { "NOT-minimal".into() });
            if total != minimal {
                let files: Vec<(String, usize)> = rec.live_dir.iter().filter(|(n, b)| n.ends_with(".data") && !b.is_empty()).map(|(n, b)| (n.clone(), b.len())).collect();
                cx.sh.violate(Violation {
                    class: format!("{}:not-minimal-after-full-merge[after-a-failed-{}]", cx.prop, call.short().split(' ').next().unwrap_or("call")),
                    msg: format!("data files hold {} bytes {:?}, the pairs the store reads need {} | {} then merge merge under {:?} | {}", total, files, minimal, show_word(word), cfg, at),
                    case: case_json("space", &cfg, word, at.clone()),
                });
            }
        }
    }
}

/// Root-cause classes for single-fault violations.
fn classify_fault(class: &str, word: &[Op], fault_op: Option<usize>, call: &Call) -> String {
    let op = fault_op.map(|i| word[i]);
    let what = match call {
        Call::Create { .. } => "create",
        Call::Write { .. } => "write",
        Call::Fsync { .. } => "fsync",
        Call::Unlink { .. } => "unlink",
        _ => "?",
    };
    let opn = match op {
        Some(Op::Merge) => "merge",
        Some(Op::Reopen) | Some(Op::ReopenAs(_)) => "reopen",
        Some(Op::Set(_, 4)) | Some(Op::Set(_, 5)) | Some(Op::Set(6, _)) => "big-set",
        Some(Op::Set(..)) => "set",
        Some(Op::Del(_)) => "del",
        Some(Op::Fill(..)) | Some(Op::Drain(..)) => "bulk",
        Some(Op::SetLen(..)) => "big-set",
        Some(Op::Sync) => "sync",
        None => "?",
    };
    format!("{}[{}-failed-in-{}]", class, what, opn)
}

// ---------------------------------------------------------------------------------------------
// worker / replay / meta

pub fn worker(job: &Job) -> Shard {
    let mut sh = Shard::default();
    let t0 = Instant::now();
    let mode = job.pass.split(':').nth(1).unwrap_or("crash").to_string();
    let p = plan(&mode, job.tier);
    let scratch = job.scratch();
    let words = plan_words(&p);
    let mut idx = 0usize;
    let mut first = true;
    {
        let mut cx = Ctx { sh: &mut sh, prop: &job.prop, live: scratch.join("live"), rdir: scratch.join("rec") };
        'outer: for cfg in &p.cfgs {
            for w in &words {
                idx += 1;
                if idx % job.nshards != job.shard {
                    continue;
                }
                if t0.elapsed().as_secs() > job.deadline_s {
                    cx.sh.capped = true;
                    cx.sh.notes.insert(format!("time cap hit after {} of {} workloads", idx, words.len() * p.cfgs.len()));
                    break 'outer;
                }
                job.progress(&case_json(&mode, cfg, w, json!(null)));
                if first && !w.is_empty() {
                    // determinism self-check: two recordings of the same workload give the same calls
                    let a = record(*cfg, w, &cx.live, None);
                    let bb = record(*cfg, w, &cx.live, None);
                    let sig = |r: &Recorded| r.log.iter().map(|c| match c { Call::Write { path, data } => format!("w {} {}", path, data.len()), o => o.short() }).collect::<Vec<_>>();
                    if sig(&a) != sig(&bb) {
                        cx.sh.machinery_errors.push(format!("recording of {} is not deterministic", show_word(w)));
                    }
                    first = false;
                }
                match mode.as_str() {
                    "crash" | "c14" => run_crash(&mut cx, *cfg, w, false, false),
                    "power" => run_crash(&mut cx, *cfg, w, true, job.tier == Tier::Thorough),
                    "fault" => {
                        if !w.is_empty() {
                            run_fault(&mut cx, *cfg, w, w.len() < p.depth)
                        }
                    }
                    "space" => {
                        if w.len() == p.depth || (w.len() + 1 == p.depth) {
                            run_space(&mut cx, *cfg, w)
                        }
                    }
                    m => panic!("unknown e2 mode {}", m),
                }
                cx.sh.count("workloads", 1);
            }
        }
    }
    if mode == "power" && !sh.capped {
        // C09 over faulted histories
        let al = [Op::Set(0, 0), Op::Set(0, 1), Op::Set(1, 0), Op::Set(1, 4), Op::Del(0), Op::Merge];
        let mut fwords = words_upto(&al, job.tier.pick(3, 4));
        fwords.retain(|w| !w.is_empty());
        let wr = [Op::Set(0, 0), Op::Set(0, 1), Op::Set(1, 0), Op::Set(1, 4), Op::Del(0)];
        for x in wr {
            for y in wr {
                if job.tier == Tier::Quick {
                    fwords.push(vec![x, y, Op::Merge, Op::Merge]);
                    fwords.push(vec![x, Op::Merge, y, Op::Merge]);
                }
                // a clean restart between the failed call and what follows: what the instance
                // knew about the failure is gone
                fwords.push(vec![x, y, Op::Merge, Op::Reopen, Op::Merge]);
                fwords.push(vec![x, Op::Merge, Op::Reopen, y, Op::Merge]);
            }
        }
        let mut fcfgs = vec![];
        for mfs in [0u64, 27, 60] {
            for thr in [Thr::All, Thr::Dead, Thr::Size27] {
                let mut c = Cfg::new(mfs, thr, 1);
                c.sync_always = true;
                fcfgs.push(c);
            }
        }
        let mut cx = Ctx { sh: &mut sh, prop: &job.prop, live: scratch.join("live"), rdir: scratch.join("rec") };
        let mut k = 0usize;
        'fp: for cfg in &fcfgs {
            for w in &fwords {
                k += 1;
                if k % job.nshards != job.shard {
                    continue;
                }
                if t0.elapsed().as_secs() > job.deadline_s {
                    cx.sh.capped = true;
                    cx.sh.notes.insert("time cap hit in the faulted-history pass".into());
                    break 'fp;
                }
                if k % 64 == job.shard {
                    job.progress(&case_json("faultpower", cfg, w, json!(null)));
                }
                run_fault_power(&mut cx, *cfg, w);
                cx.sh.count("faulted-power-workloads", 1);
            }
        }
    }
    if mode == "crash" && !sh.capped {
        // hundreds of keys in one merge (one configuration: everything in one output file): the hint
        // writer flushes its 8 KiB buffer in the middle of records, the merge issues hundreds of
        // calls - a crash point at every one of them; the recoveries read every key back, once
        let n = job.tier.pick(300u32, 700u32);
        let bulk_words = vec![vec![Op::Fill(n, 1), Op::Merge], vec![Op::Fill(n, 1), Op::Drain(n, 2), Op::Merge], vec![Op::Fill(n, 1), Op::Merge, Op::Fill(n / 2, 2), Op::Merge], vec![Op::Fill(40, 1)]];
        let cfg = Cfg::new(1_000_000, Thr::All, 1);
        RECOVER_LIGHT.store(true, std::sync::atomic::Ordering::SeqCst);
        let mut cx = Ctx { sh: &mut sh, prop: &job.prop, live: scratch.join("live"), rdir: scratch.join("rec") };
        for (k, w) in bulk_words.iter().enumerate() {
            // the crash points of one word are spread over the workers
            BULK_SHARD.store(job.shard * 1000 + job.nshards, std::sync::atomic::Ordering::SeqCst);
            let _ = k;
            job.progress(&case_json("crash", &cfg, w, json!(null)));
            run_crash(&mut cx, cfg, w, false, false);
            cx.sh.count("bulk-crash-workloads", 1);
        }
        BULK_SHARD.store(1, std::sync::atomic::Ordering::SeqCst);
        RECOVER_LIGHT.store(false, std::sync::atomic::Ordering::SeqCst);
    }
    if (mode == "crash" || mode == "c14") && !sh.capped {
        let pairs = double_crash_pairs(job.tier);
        let mut cx = Ctx { sh: &mut sh, prop: &job.prop, live: scratch.join("live"), rdir: scratch.join("rec") };
        let mut k = 0usize;
        for cfg in &p.cfgs {
            for (f, c) in &pairs {
                k += 1;
                if k % job.nshards != job.shard {
                    continue;
                }
                if t0.elapsed().as_secs() > job.deadline_s {
                    cx.sh.capped = true;
                    cx.sh.notes.insert("time cap hit in the double-crash enumeration".into());
                    break;
                }
                job.progress(&json!({"engine": "crash", "mode": "double", "cfg": cfg.to_json(), "word": word_json(f), "cont": word_json(c)}));
                run_double_crash(&mut cx, *cfg, f, c);
                cx.sh.count("double-crash-pairs", 1);
            }
        }
    }
    rmrf(&scratch);
    sh
}

pub fn replay(prop: &str, case: &Value) -> Vec<Violation> {
    let cfg = Cfg::from_json(&case["cfg"]).expect("cfg");
    let word = word_from_json(&case["word"]).expect("word");
    let mode = case["mode"].as_str().unwrap_or("crash").to_string();
    let scratch = PathBuf::from(format!("/dev/shm/vh-replay-{}", std::process::id()));
    let mut sh = Shard::default();
    {
        let mut cx = Ctx { sh: &mut sh, prop, live: scratch.join("live"), rdir: scratch.join("rec") };
        match mode.as_str() {
            "crash" => run_crash(&mut cx, cfg, &word, false, false),
            "faultpower" => run_fault_power(&mut cx, cfg, &word),
            "double" => run_double_crash(&mut cx, cfg, &word, &word_from_json(&case["cont"]).unwrap_or_default()),
            "power" => run_crash(&mut cx, cfg, &word, true, true),
            "fault" => run_fault(&mut cx, cfg, &word, false),
            "space" => run_space(&mut cx, cfg, &word),
            _ => {}
        }
    }
    rmrf(&scratch);
    // report the violations at the recorded position first; a replay re-runs the whole workload
    let want = &case["at"];
    let mut v: Vec<Violation> = sh.violations;
    v.sort_by_key(|x| if &x.case["at"] == want { 0 } else { 1 });
    v
}

pub fn report_meta(prop: &str, tier: Tier) -> (String, Value, Vec<String>) {
    let mode = match prop {
        "C03" => "crash",
        "C09" => "power",
        "C20" => "fault",
        "C13" => "space",
        _ => "c14",
    };
    let p = plan(mode, tier);
    let nwords = plan_words(&p).len();
    let rule = match mode {
        "crash" | "c14" => format!("every workload word of length 0..={} over {:?} x {} configurations is executed on the real store with every mutating system call recorded; for every crash point inside the last operation of every word (so every prefix of every history is a crash point exactly once) the directory produced by exactly that prefix of calls is rebuilt, opened by the real recovery code in a forked child (twice: a crash right after recovery's own file creation), and every key is read; (plus every word one shorter that sets the empty value or a CR LF NUL 0xFF value); a case is distinct+non-trivial when an operation is in flight at the crash point (distinct by directory fingerprint). workloads={}", p.depth, p.alphabet.iter().map(|o| o.show()).collect::<Vec<_>>(), p.cfgs.len(), nwords * p.cfgs.len()),
        "space" => format!("every workload word of length {}..{} over {:?} x {} configurations (every file eligible) with ONE failed create / write / fsync / unlink (EIO, short write) at every position, followed by two fault-free merges: the data files must then hold exactly the pairs the store reads. workloads={}", p.depth - 1, p.depth, p.alphabet.iter().map(|o| o.show()).collect::<Vec<_>>(), p.cfgs.len(), nwords * p.cfgs.len()),
        "power" => format!("as the crash enumeration, under sync=always, and for every crash point every per-file loss vector: each file independently keeps any length between its last fsync and its current length ({}); creations and removals are durable. workloads={}", if tier == Tier::Thorough { "every byte for tails up to 64 bytes, else every write boundary plus every byte of the first and last 40" } else { "the full product over files at write boundaries, plus every byte of every unsynced tail of up to 80 bytes one file at a time" }, nwords * p.cfgs.len()),
        _ => format!("every workload word of length {} (every fault position) and every shorter word (fault in its last operation) over {:?} x {} configurations; one fault per run at every individual create / write / fsync / unlink call with EIO, ENOSPC (writes, creates) and short writes; the rest of the workload runs after the fault, then the store is restarted. workloads={}", p.depth, p.alphabet.iter().map(|o| o.show()).collect::<Vec<_>>(), p.cfgs.len(), nwords * p.cfgs.len()),
    };
    let bounds = json!({"mode": mode, "depth": p.depth, "alphabet": p.alphabet.iter().map(|o| o.show()).collect::<Vec<_>>(), "configs": p.cfgs.iter().map(|c| c.to_json()).collect::<Vec<_>>(), "workloads": nwords * p.cfgs.len()});
    let assumptions = vec![
        "failure model of the properties themselves: a killed process leaves exactly a prefix of its system calls; power loss additionally drops, per file, any suffix after that file's last fsync; creations and unlinks are durable".to_string(),
        "the materialiser (rebuilding a directory from recorded calls) is validated on every execution: the full prefix must be byte-identical to the live directory".to_string(),
        "recoveries run in forked children so that a process abort is an observation".to_string(),
    ];
    (rule, bounds, assumptions)
}

pub fn child_recover(_args: &[String]) -> i32 {
    0
}
