//! stub (to be implemented)
#![allow(dead_code, unused_variables)]
use crate::common::*;
use serde_json::{json, Value};
pub fn worker(job: &Job) -> Shard { Shard::default() }
pub fn replay(prop: &str, case: &Value) -> Vec<Violation> { vec![] }
pub fn report_meta(prop: &str, tier: Tier) -> (String, Value, Vec<String>) { (String::new(), json!({}), vec![]) }
pub fn child_recover(args: &[String]) -> i32 { 0 }
