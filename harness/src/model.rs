//! The only "models" of this framework: deliberately boring oracles (DESIGN §4.4).

use std::collections::BTreeMap;

// ---------------------------------------------------------------------------------------------
// key-value reference

pub type Kv = BTreeMap<Vec<u8>, Vec<u8>>;

// ---------------------------------------------------------------------------------------------
// independent decoders of the on-disk format
//   data:  i64 tstamp | u64 klen | key | u8 tag | [u64 vlen | value]
//   hint:  i64 tstamp | u64 len | u64 pos | u64 klen | key

#[derive(Clone, Debug, PartialEq, Eq)]
pub struct DataEntry {
    pub pos: u64,
    pub len: u64,
    pub key: Vec<u8>,
    pub value: Option<Vec<u8>>,
}

#[derive(Clone, Debug, PartialEq, Eq)]
pub struct HintEntry {
    pub len: u64,
    pub pos: u64,
    pub key: Vec<u8>,
}

fn rd_u64(b: &[u8], p: usize) -> Option<u64> {
    b.get(p..p + 8).map(|s| u64::from_le_bytes(s.try_into().unwrap()))
}

/// Decode a data file. Returns the complete entries and the number of trailing bytes that do not
/// form a complete entry (a torn tail, or garbage).
pub fn decode_data(b: &[u8]) -> (Vec<DataEntry>, usize) {
    let mut out = vec![];
    let mut p = 0usize;
    loop {
        let s = p;
        let mut q = p;
        let ok = (|| {
            rd_u64(b, q)?;
            q += 8;
            let kl = rd_u64(b, q)? as usize;
            q += 8;
            if kl > b.len() {
                return None;
            }
            let k = b.get(q..q + kl)?.to_vec();
            q += kl;
            let tag = *b.get(q)?;
            q += 1;
            let v = match tag {
                0 => None,
                1 => {
                    let vl = rd_u64(b, q)? as usize;
                    q += 8;
                    if vl > b.len() {
                        return None;
                    }
                    let v = b.get(q..q + vl)?.to_vec();
                    q += vl;
                    Some(v)
                }
                _ => return None,
            };
            Some((k, v))
        })();
        match ok {
            Some((k, v)) => {
                out.push(DataEntry { pos: s as u64, len: (q - s) as u64, key: k, value: v });
                p = q;
            }
            None => return (out, b.len() - s),
        }
        if p == b.len() {
            return (out, 0);
        }
    }
}

pub fn decode_hint(b: &[u8]) -> (Vec<HintEntry>, usize) {
    let mut out = vec![];
    let mut p = 0usize;
    while p < b.len() {
        let s = p;
        let r = (|| {
            let mut q = p;
            rd_u64(b, q)?;
            q += 8;
            let len = rd_u64(b, q)?;
            q += 8;
            let pos = rd_u64(b, q)?;
            q += 8;
            let kl = rd_u64(b, q)? as usize;
            q += 8;
            if kl > b.len() {
                return None;
            }
            let k = b.get(q..q + kl)?.to_vec();
            q += kl;
            Some((HintEntry { len, pos, key: k }, q))
        })();
        match r {
            Some((e, q)) => {
                out.push(e);
                p = q;
            }
            None => return (out, b.len() - s),
        }
    }
    (out, 0)
}

/// Size on disk of a value entry.
pub fn entry_size(k: &[u8], v: &[u8]) -> u64 {
    25 + k.len() as u64 + v.len() as u64
}

// ---------------------------------------------------------------------------------------------
// independent RESP reference codec (iterative, i128 decimal reader)

#[derive(Clone, Debug, PartialEq, Eq)]
pub enum RFrame {
    Simple(Vec<u8>),
    Error(Vec<u8>),
    Integer(i64),
    Bulk(Vec<u8>),
    Null,
    Array(Vec<RFrame>),
}

pub fn resp_encode(f: &RFrame, out: &mut Vec<u8>) {
    match f {
        RFrame::Simple(s) => {
            out.push(b'+');
            out.extend_from_slice(s);
            out.extend_from_slice(b"\r\n");
        }
        RFrame::Error(s) => {
            out.push(b'-');
            out.extend_from_slice(s);
            out.extend_from_slice(b"\r\n");
        }
        RFrame::Integer(i) => {
            out.push(b':');
            out.extend_from_slice(i.to_string().as_bytes());
            out.extend_from_slice(b"\r\n");
        }
        RFrame::Bulk(b) => {
            out.push(b'$');
            out.extend_from_slice(b.len().to_string().as_bytes());
            out.extend_from_slice(b"\r\n");
            out.extend_from_slice(b);
            out.extend_from_slice(b"\r\n");
        }
        RFrame::Null => out.extend_from_slice(b"$-1\r\n"),
        RFrame::Array(items) => {
            out.push(b'*');
            out.extend_from_slice(items.len().to_string().as_bytes());
            out.extend_from_slice(b"\r\n");
            for i in items {
                resp_encode(i, out);
            }
        }
    }
}

/// The reference decodes arrays iteratively and could nest without bound; it stops here only
/// because dropping a deeper `RFrame` would recurse too far in the harness itself. The limit is
/// deliberately far above the implementation's (32 since fix 02d272a): where the implementation
/// refuses and the reference accepts nothing is compared, so a maintainer may move the
/// implementation's limit without this oracle noticing.
pub const MAX_NESTED_ARRAYS: usize = 2048;

#[derive(Clone, Debug, PartialEq, Eq)]
pub enum RErr {
    Incomplete,
    Bad,
}

/// Read an optionally signed decimal terminated by CR LF starting at `p`. Returns (value, next).
/// Strict: at least one digit, nothing but digits after the sign. Values are exact in i128 (more
/// than 30 digits are reported as out of range via `None`).
pub fn ref_decimal(b: &[u8], p: usize) -> Result<(Option<i128>, usize), RErr> {
    let mut q = p;
    let mut neg = false;
    if q < b.len() && (b[q] == b'-' || b[q] == b'+') {
        neg = b[q] == b'-';
        q += 1;
    }
    let ds = q;
    let mut v: Option<i128> = Some(0);
    while q < b.len() && b[q].is_ascii_digit() {
        v = v.and_then(|x| x.checked_mul(10)).and_then(|x| x.checked_add((b[q] - b'0') as i128));
        if q - ds > 30 {
            v = None;
        }
        q += 1;
    }
    if q >= b.len() {
        return Err(RErr::Incomplete);
    }
    if q == ds || b[q] != b'\r' {
        return Err(RErr::Bad);
    }
    if q + 1 >= b.len() {
        return Err(RErr::Incomplete);
    }
    // the byte after CR is skipped unchecked by the implementation; the reference requires LF
    // only where a property needs it, so report what is there
    Ok((v.map(|x| if neg { -x } else { x }), q + 2))
}

/// Decode one frame of *well-formed* RESP as this server/client pair speaks it (used for
/// expected replies and for splitting client-side byte streams). Iterative for arrays of
/// non-array elements; nested arrays are handled with an explicit stack.
pub fn resp_decode(b: &[u8], p: usize) -> Result<(RFrame, usize), RErr> {
    // explicit stack of (remaining, items)
    let mut stack: Vec<(usize, Vec<RFrame>)> = vec![];
    let mut p = p;
    loop {
        if p >= b.len() {
            return Err(RErr::Incomplete);
        }
        let t = b[p];
        let mut done: Option<RFrame> = None;
        match t {
            b'+' | b'-' => {
                let s = p + 1;
                let mut q = s;
                loop {
                    if q >= b.len() {
                        return Err(RErr::Incomplete);
                    }
                    if b[q] == b'\r' {
                        break;
                    }
                    if b[q] == b'\n' {
                        return Err(RErr::Bad);
                    }
                    q += 1;
                }
                if q + 1 >= b.len() {
                    return Err(RErr::Incomplete);
                }
                let body = b[s..q].to_vec();
                p = q + 2;
                done = Some(if t == b'+' { RFrame::Simple(body) } else { RFrame::Error(body) });
            }
            b':' => {
                let (v, q) = ref_decimal(b, p + 1)?;
                let v = v.ok_or(RErr::Bad)?;
                let v = i64::try_from(v).map_err(|_| RErr::Bad)?;
                p = q;
                done = Some(RFrame::Integer(v));
            }
            b'$' => {
                let (v, q) = ref_decimal(b, p + 1)?;
                let v = v.ok_or(RErr::Bad)?;
                if v == -1 {
                    p = q;
                    done = Some(RFrame::Null);
                } else {
                    if v < 0 {
                        return Err(RErr::Bad);
                    }
                    let n = usize::try_from(v).map_err(|_| RErr::Bad)?;
                    if b.len() < q || b.len() - q < n.saturating_add(2) {
                        return Err(RErr::Incomplete);
                    }
                    done = Some(RFrame::Bulk(b[q..q + n].to_vec()));
                    p = q + n + 2;
                }
            }
            b'*' => {
                let (v, q) = ref_decimal(b, p + 1)?;
                let v = v.ok_or(RErr::Bad)?;
                if v < 0 {
                    return Err(RErr::Bad);
                }
                let n = usize::try_from(v).map_err(|_| RErr::Bad)?;
                p = q;
                // the harness's own limit, see MAX_NESTED_ARRAYS
                if stack.len() >= MAX_NESTED_ARRAYS {
                    return Err(RErr::Bad);
                }
                if n == 0 {
                    done = Some(RFrame::Array(vec![]));
                } else {
                    stack.push((n, vec![]));
                }
            }
            _ => return Err(RErr::Bad),
        }
        let mut cur = done;
        while let Some(f) = cur.take() {
            match stack.last_mut() {
                None => return Ok((f, p)),
                Some((rem, items)) => {
                    items.push(f);
                    *rem -= 1;
                    if *rem == 0 {
                        let (_, items) = stack.pop().unwrap();
                        cur = Some(RFrame::Array(items));
                    }
                }
            }
        }
    }
}

/// Split a received byte stream into complete frames; returns (frames, bytes left over).
pub fn resp_split(b: &[u8]) -> (Vec<RFrame>, Vec<u8>, bool) {
    let mut p = 0;
    let mut out = vec![];
    loop {
        if p == b.len() {
            return (out, vec![], false);
        }
        match resp_decode(b, p) {
            Ok((f, q)) => {
                out.push(f);
                p = q;
            }
            Err(RErr::Incomplete) => return (out, b[p..].to_vec(), false),
            Err(RErr::Bad) => return (out, b[p..].to_vec(), true),
        }
    }
}

pub fn cmd(parts: &[&[u8]]) -> Vec<u8> {
    let mut out = vec![];
    resp_encode(&RFrame::Array(parts.iter().map(|p| RFrame::Bulk(p.to_vec())).collect()), &mut out);
    out
}

// ---------------------------------------------------------------------------------------------
// brute-force linearizability checker

#[derive(Clone, Debug, PartialEq, Eq)]
pub enum LOp {
    Set(Vec<u8>, Vec<u8>),
    Get(Vec<u8>),
    Del(Vec<u8>),
    /// An operation that must not change or observe anything (merge, sync).
    Nop,
}
#[derive(Clone, Debug, PartialEq, Eq)]
pub enum LRes {
    Unit,
    Val(Option<Vec<u8>>),
    Bool(bool),
    /// The operation never returned (still pending at the end): it may take effect or not.
    Pending,
}
#[derive(Clone, Debug)]
pub struct LEvent {
    pub op: LOp,
    pub res: LRes,
    pub inv: u64,
    pub ret: u64,
}

fn apply(m: &mut Kv, op: &LOp) -> LRes {
    match op {
        LOp::Set(k, v) => {
            m.insert(k.clone(), v.clone());
            LRes::Unit
        }
        LOp::Get(k) => LRes::Val(m.get(k).cloned()),
        LOp::Del(k) => LRes::Bool(m.remove(k).is_some()),
        LOp::Nop => LRes::Unit,
    }
}

/// Is there a total order of the events that respects real time (`a.ret < b.inv` ⇒ a before b)
/// and in which every completed operation returns what the map model returns? On success the
/// final model state of the first linearization found is returned.
pub fn linearizable(init: &Kv, evs: &[LEvent]) -> Option<Kv> {
    fn rec(m: &Kv, evs: &[LEvent], done: &mut Vec<bool>, left: usize) -> Option<Kv> {
        if left == 0 {
            return Some(m.clone());
        }
        // minimal elements: not done, and no other not-done event returned before its invocation
        for i in 0..evs.len() {
            if done[i] {
                continue;
            }
            let minimal = (0..evs.len()).all(|j| j == i || done[j] || !(evs[j].ret < evs[i].inv));
            if !minimal {
                continue;
            }
            if evs[i].res == LRes::Pending {
                // may never take effect ...
                done[i] = true;
                if let Some(r) = rec(m, evs, done, left - 1) {
                    return Some(r);
                }
                done[i] = false;
            }
            let mut m2 = m.clone();
            let r = apply(&mut m2, &evs[i].op);
            if evs[i].res == LRes::Pending || r == evs[i].res {
                done[i] = true;
                if let Some(r) = rec(&m2, evs, done, left - 1) {
                    return Some(r);
                }
                done[i] = false;
            }
        }
        None
    }
    let mut done = vec![false; evs.len()];
    rec(init, evs, &mut done, evs.len())
}

/// All final states reachable by some valid linearization (small histories only).
pub fn linearizations_final_states(init: &Kv, evs: &[LEvent]) -> Vec<Kv> {
    fn rec(m: &Kv, evs: &[LEvent], done: &mut Vec<bool>, left: usize, out: &mut Vec<Kv>) {
        if left == 0 {
            if !out.contains(m) {
                out.push(m.clone());
            }
            return;
        }
        for i in 0..evs.len() {
            if done[i] {
                continue;
            }
            let minimal = (0..evs.len()).all(|j| j == i || done[j] || !(evs[j].ret < evs[i].inv));
            if !minimal {
                continue;
            }
            if evs[i].res == LRes::Pending {
                done[i] = true;
                rec(m, evs, done, left - 1, out);
                done[i] = false;
            }
            let mut m2 = m.clone();
            let r = apply(&mut m2, &evs[i].op);
            if evs[i].res == LRes::Pending || r == evs[i].res {
                done[i] = true;
                rec(&m2, evs, done, left - 1, out);
                done[i] = false;
            }
        }
    }
    let mut out = vec![];
    let mut done = vec![false; evs.len()];
    rec(init, evs, &mut done, evs.len(), &mut out);
    out
}
