//! E3 `sched` — preemption-bounded exhaustive interleavings of real threads on one real store
//! (DESIGN §5 E3). Serves C04.

use std::collections::BTreeSet;
use std::path::{Path, PathBuf};
use std::sync::atomic::{AtomicU64, Ordering};
use std::sync::{Arc, Mutex};
use std::time::Instant;

use bitcask::storage::bitcask::{Config, VerifMergePolicy};
use bitcask::storage::KeyValueStorage;
use bytes::Bytes;
use serde_json::{json, Value};

use crate::common::*;
use crate::iohook;
use crate::model::{linearizations_final_states, Kv, LEvent, LOp, LRes};
use crate::sched::{self, Decision, RunEnd, Sched};

#[derive(Clone, Debug, PartialEq, Eq)]
pub enum SOp {
    Put(&'static str, usize),
    Get(&'static str),
    Del(&'static str),
    Merge,
    Sync,
}

impl SOp {
    fn show(&self) -> String {
        match self {
            SOp::Put(k, n) => format!("put({},{}B)", k, n),
            SOp::Get(k) => format!("get({})", k),
            SOp::Del(k) => format!("del({})", k),
            SOp::Merge => "merge".into(),
            SOp::Sync => "sync".into(),
        }
    }
    fn lop(&self) -> LOp {
        match self {
            SOp::Put(k, n) => LOp::Set(k.as_bytes().to_vec(), val(*n).to_vec()),
            SOp::Get(k) => LOp::Get(k.as_bytes().to_vec()),
            SOp::Del(k) => LOp::Del(k.as_bytes().to_vec()),
            SOp::Merge | SOp::Sync => LOp::Nop,
        }
    }
}

fn val(n: usize) -> Bytes {
    // the value is determined by its length: distinct lengths = distinct values
    Bytes::from(vec![b'a' + (n % 23) as u8; n])
}
fn kb(k: &str) -> Bytes {
    Bytes::from(k.to_string())
}

#[derive(Clone, Debug)]
pub struct Harness {
    pub name: &'static str,
    pub mfs: u64,
    pub conc: usize,
    pub cache: usize,
    pub seed: u64,
    pub preload: Vec<SOp>,
    pub progs: Vec<Vec<SOp>>,
    pub sync_always: bool,
}

pub const BIG: usize = 9000;
const MFS_BIG: u64 = 1 << 31;

pub fn harnesses() -> Vec<Harness> {
    use SOp::*;
    let h = |name, mfs, conc, preload: Vec<SOp>, progs: Vec<Vec<SOp>>| Harness { name, mfs, conc, cache: 4, seed: 1, preload, progs, sync_always: false };
    let mut v = vec![
        // H1: reader between the two write(2) calls of an entry larger than the write buffer
        h("H1-big-put-vs-reads", MFS_BIG, 1, vec![Put("a", 3)], vec![vec![Put("b", BIG)], vec![Get("a"), Get("b")]]),
        h("H1b-big-overwrite-vs-reads", MFS_BIG, 1, vec![Put("a", 3)], vec![vec![Put("a", BIG)], vec![Get("a"), Get("a")]]),
        h("H2-overwrite-vs-reads", MFS_BIG, 1, vec![Put("a", 3)], vec![vec![Put("a", 7)], vec![Get("a"), Get("a")]]),
        h("H3-del-put-get", MFS_BIG, 1, vec![Put("a", 3)], vec![vec![Del("a")], vec![Put("a", 7)], vec![Get("a")]]),
        h("H4-merge-vs-reads", 0, 1, vec![Put("a", 3), Put("b", 4)], vec![vec![Merge], vec![Get("a"), Get("b")]]),
        h("H4b-merge-vs-reads-one-file", MFS_BIG, 1, vec![Put("a", 3), Put("b", 4), Put("a", 5)], vec![vec![Merge], vec![Get("a"), Get("b")]]),
        h("H5-merge-put-get", 0, 1, vec![Put("a", 3)], vec![vec![Merge], vec![Put("a", 7)], vec![Get("a")]]),
        h("H5b-merge-del-get", 0, 1, vec![Put("a", 3), Put("b", 4)], vec![vec![Merge], vec![Del("a")], vec![Get("a")]]),
        h("H6-rollover-put-vs-reads", 0, 1, vec![Put("a", 3)], vec![vec![Put("a", 7)], vec![Get("a"), Get("a")]]),
        h("H7-two-readers-one-pooled", MFS_BIG, 1, vec![Put("a", 3)], vec![vec![Get("a")], vec![Get("b")], vec![Put("b", 4)]]),
        h("H7b-two-readers-two-pooled", MFS_BIG, 2, vec![Put("a", 3)], vec![vec![Get("a")], vec![Get("b")], vec![Put("b", 4)]]),
        h("H8-two-writers-two-keys", 60, 2, vec![Put("a", 3)], vec![vec![Put("a", 7), Del("b")], vec![Put("b", 4), Get("a")]]),
        h("H9-merge-twice-vs-read", 0, 1, vec![Put("a", 3), Put("a", 5)], vec![vec![Merge, Merge], vec![Get("a"), Get("a")]]),
    ];
    v.extend(vec![
        // merge copying a 9000-byte entry (several write calls) while a reader maps the merge file for another key
        h("H4d-merge-big-vs-reads", MFS_BIG, 1, vec![Put("a", 3), Put("b", BIG), Put("a", 5)], vec![vec![Merge], vec![Get("a"), Get("b")]]),
        // big overwrite with a rollover inside the put
        h("H12-big-rollover-put-vs-reads", 60, 1, vec![Put("a", 3)], vec![vec![Put("a", BIG)], vec![Get("a"), Get("a")]]),
        // two writers on one key with a rollover at every write, and a reader
        h("H14-two-writers-one-key-rollover", 0, 1, vec![Put("a", 3)], vec![vec![Put("a", 7)], vec![Put("a", 8)], vec![Get("a")]]),
        // delete vs merge vs read
        h("H13-del-merge-get", 0, 1, vec![Put("a", 3), Put("a", 5)], vec![vec![Del("a")], vec![Merge], vec![Get("a")]]),
        // two deleters of one present key: exactly one may report "was present"
        h("H15-two-deleters", MFS_BIG, 1, vec![Put("a", 3)], vec![vec![Del("a")], vec![Del("a")]]),
        h("H16-two-deleters-and-a-writer", 0, 1, vec![Put("a", 3)], vec![vec![Del("a")], vec![Del("a")], vec![Put("b", 4)]]),
        // a put and a delete of the same absent key: the delete reports presence iff it comes second
        h("H17-put-vs-del-absent", MFS_BIG, 1, vec![], vec![vec![Put("a", 3)], vec![Del("a")]]),
        // reader that first touches the key whose file the merge removes, then the merged copy
        h("H11-merge-vs-rereads", 0, 1, vec![Put("a", 3), Put("a", 5), Put("b", 4)], vec![vec![Merge], vec![Get("a"), Get("a")]]),
    ]);
    // cache size 0: every read re-opens and re-maps its file
    let mut c0 = h("H4c-merge-vs-reads-cache0", 0, 1, vec![Put("a", 3), Put("b", 4)], vec![vec![Merge], vec![Get("a"), Get("b")]]);
    c0.cache = 0;
    v.push(c0);
    let mut s1 = h("H10-sync-always-put-vs-read", MFS_BIG, 1, vec![Put("a", 3)], vec![vec![Put("a", 7)], vec![Get("a")], vec![Sync]]);
    s1.sync_always = true;
    v.push(s1);
    v
}

#[derive(Clone, Debug)]
pub struct Rec {
    pub thread: usize,
    pub op: SOp,
    pub inv: u64,
    pub ret: u64,
    pub out: String,
    pub res: LRes,
}

pub struct Outcome {
    pub trace: Vec<Decision>,
    pub labels: Vec<String>,
    pub recs: Vec<Rec>,
    pub end: RunEnd,
    pub final_reads: Vec<(String, Result<Option<usize>, String>)>,
    pub pool: (usize, usize),
    pub init: Kv,
    pub control_states: Vec<u64>,
}

static SEQ: AtomicU64 = AtomicU64::new(0);

fn exec_op(h: &bitcask::storage::bitcask::Handle, op: &SOp) -> (String, LRes) {
    let r = std::panic::catch_unwind(std::panic::AssertUnwindSafe(|| match op {
        SOp::Put(k, n) => match h.set(kb(k), val(*n)) {
            Ok(()) => ("ok".to_string(), LRes::Unit),
            Err(e) => (format!("Err({})", e), LRes::Pending),
        },
        SOp::Get(k) => match h.get(kb(k)) {
            Ok(v) => (format!("{:?}", v.as_ref().map(|x| x.len())), LRes::Val(v.map(|x| x.to_vec()))),
            Err(e) => (format!("Err({})", e), LRes::Pending),
        },
        SOp::Del(k) => match h.del(kb(k)) {
            Ok(bv) => (format!("{}", bv), LRes::Bool(bv)),
            Err(e) => (format!("Err({})", e), LRes::Pending),
        },
        SOp::Merge => match h.verif_merge() {
            Ok(()) => ("ok".to_string(), LRes::Unit),
            Err(e) => (format!("Err({})", e), LRes::Pending),
        },
        SOp::Sync => match h.verif_sync() {
            Ok(()) => ("ok".to_string(), LRes::Unit),
            Err(e) => (format!("Err({})", e), LRes::Pending),
        },
    }));
    match r {
        Ok(x) => x,
        Err(e) => {
            let m = if let Some(s) = e.downcast_ref::<&str>() {
                s.to_string()
            } else if let Some(s) = e.downcast_ref::<String>() {
                s.clone()
            } else {
                "?".into()
            };
            (format!("PANIC({})", m), LRes::Pending)
        }
    }
}

pub fn run_one(prefix: &[usize], hs: &Harness, dir: &Path) -> Outcome {
    let prefix = prefix.to_vec();
    let hs = hs.clone();
    let dir = dir.to_path_buf();
    std::thread::spawn(move || run_one_here(&prefix, &hs, &dir)).join().expect("schedule thread")
}

fn run_one_here(prefix: &[usize], hs: &Harness, dir: &Path) -> Outcome {
    iohook::set_seed(Some(hs.seed));
    rmrf(dir);
    std::fs::create_dir_all(dir).unwrap();
    let mut c = Config::default();
    c.path(dir).concurrency(hs.conc).readers_cache_size(hs.cache).max_file_size(hs.mfs).merge_policy(VerifMergePolicy::Never);
    c.merge_threshold_small_file(u64::MAX).merge_threshold_dead_bytes(u64::MAX).merge_threshold_fragmentation(1.0);
    if hs.sync_always {
        c.sync(bitcask::storage::bitcask::SyncStrategy::Always);
    }
    let kv = c.open().expect("open");
    let h = kv.get_handle();
    let mut init = Kv::new();
    for op in &hs.preload {
        let _ = exec_op(&h, op);
        match op {
            SOp::Put(k, n) => {
                init.insert(k.as_bytes().to_vec(), val(*n).to_vec());
            }
            SOp::Del(k) => {
                init.remove(k.as_bytes());
            }
            _ => {}
        }
    }
    let sched: &'static Sched = Sched::new_leaked(hs.progs.len());
    let recs = Arc::new(Mutex::new(Vec::<Rec>::new()));
    let mut joins = vec![];
    for (i, prog) in hs.progs.iter().cloned().enumerate() {
        let h = h.clone();
        let recs = recs.clone();
        joins.push(std::thread::spawn(move || {
            sched::attach(sched, i);
            sched::park(None, false, "start");
            for op in prog {
                let inv = SEQ.fetch_add(1, Ordering::SeqCst);
                let (out, res) = exec_op(&h, &op);
                let ret = SEQ.fetch_add(1, Ordering::SeqCst);
                recs.lock().unwrap().push(Rec { thread: i, op, inv, ret, out, res });
            }
            sched::finish();
        }));
    }
    // drive, recording the global control state after every decision
    let (trace, labels, end) = sched::drive(sched, prefix, 2000);
    for j in joins {
        let _ = j.join();
    }
    let mut control_states = vec![];
    {
        // control states: prefix-closed hashes of the label sequence per thread (which points each thread has passed)
        let mut per: Vec<u64> = vec![0; hs.progs.len()];
        for (d, l) in trace.iter().zip(labels.iter()) {
            per[d.thread] = fnv(format!("{}|{}", per[d.thread], l).as_bytes());
            control_states.push(fnv(format!("{}|{:?}", hs.name, per).as_bytes()));
        }
    }
    let pool = h.verif_pool();
    let mut final_reads = vec![];
    let keys: BTreeSet<&'static str> = hs.preload.iter().chain(hs.progs.iter().flatten()).filter_map(|o| match o {
        SOp::Put(k, _) | SOp::Get(k) | SOp::Del(k) => Some(*k),
        _ => None,
    }).collect();
    for k in keys {
        let r = if h.verif_pool().0 == 0 {
            Err("HANG: reader pool empty".to_string())
        } else {
            match std::panic::catch_unwind(std::panic::AssertUnwindSafe(|| h.get(kb(k)))) {
                Ok(Ok(v)) => Ok(v.map(|x| x.len())),
                Ok(Err(e)) => Err(format!("Err({})", e)),
                Err(_) => Err("PANIC".to_string()),
            }
        };
        final_reads.push((k.to_string(), r));
    }
    drop(h);
    drop(kv);
    iohook::set_seed(None);
    let recs = recs.lock().unwrap().clone();
    Outcome { trace, labels, recs, end, final_reads, pool, init, control_states }
}

/// Judge one execution. Returns (class, message) of the first violation.
pub fn judge(o: &Outcome, hs: &Harness) -> Option<(String, String)> {
    match &o.end {
        RunEnd::Stuck(d) => return Some(("deadlock-or-livelock".into(), format!("no progress possible: {}", d))),
        RunEnd::Stall(d) => return Some(("MACHINERY:stall".into(), d.clone())),
        RunEnd::Diverged(d) => return Some(("MACHINERY:diverged".into(), d.clone())),
        RunEnd::AllDone => {}
    }
    let expected: usize = hs.progs.iter().map(|p| p.len()).sum();
    if o.recs.len() != expected {
        return Some(("operation-never-completed".into(), format!("{} of {} operations returned", o.recs.len(), expected)));
    }
    if let Some(r) = o.recs.iter().find(|r| r.out.starts_with("PANIC")) {
        return Some(("op-panic".into(), format!("T{} {} -> {}", r.thread, r.op.show(), r.out)));
    }
    if let Some(r) = o.recs.iter().find(|r| r.out.starts_with("Err")) {
        return Some(("op-error".into(), format!("T{} {} -> {}", r.thread, r.op.show(), r.out)));
    }
    let evs: Vec<LEvent> = o.recs.iter().map(|r| LEvent { op: r.op.lop(), res: r.res.clone(), inv: r.inv, ret: r.ret }).collect();
    let finals = linearizations_final_states(&o.init, &evs);
    if finals.is_empty() {
        return Some(("not-linearizable".into(), format!("history {:?}", o.recs.iter().map(|r| format!("T{} {}={} [{},{}]", r.thread, r.op.show(), r.out, r.inv, r.ret)).collect::<Vec<_>>())));
    }
    if o.pool.0 != o.pool.1 {
        return Some(("reader-lost".into(), format!("{} of {} readers back in the pool after all operations returned", o.pool.0, o.pool.1)));
    }
    // final reads agree with the final state of some valid linearization
    let ok = finals.iter().any(|m| o.final_reads.iter().all(|(k, r)| matches!(r, Ok(v) if *v == m.get(k.as_bytes()).map(|x| x.len()))));
    if !ok {
        return Some(("final-state-disagrees".into(), format!("final reads {:?}; final states of valid linearizations {:?}", o.final_reads, finals.iter().map(|m| m.iter().map(|(k, v)| (String::from_utf8_lossy(k).to_string(), v.len())).collect::<Vec<_>>()).collect::<Vec<_>>())));
    }
    None
}

fn outcome_sig(o: &Outcome) -> String {
    let mut v: Vec<String> = o.recs.iter().map(|r| format!("T{}:{}={}", r.thread, r.op.show(), r.out)).collect();
    v.sort();
    format!("{} | final {:?}", v.join(" "), o.final_reads.iter().map(|(k, r)| format!("{}={:?}", k, r)).collect::<Vec<_>>())
}

fn case_json(hs: &Harness, sched_choices: &[usize], labels: &[String], bound: usize) -> Value {
    json!({"engine": "sched", "harness": hs.name, "schedule": sched_choices, "steps": labels, "bound": bound,
           "programs": hs.progs.iter().map(|p| p.iter().map(|o| o.show()).collect::<Vec<_>>()).collect::<Vec<_>>(),
           "preload": hs.preload.iter().map(|o| o.show()).collect::<Vec<_>>(), "max_file_size": hs.mfs, "concurrency": hs.conc})
}

pub fn bound_for(tier: Tier) -> usize {
    std::env::var("VH_PREEMPTIONS").ok().and_then(|s| s.parse().ok()).unwrap_or(tier.pick(2, 3))
}

pub fn worker(job: &Job) -> Shard {
    let mut sh = Shard::default();
    let t0 = Instant::now();
    let scratch = job.scratch();
    let dir = scratch.join("store");
    let bound = bound_for(job.tier);
    let hss = harnesses();
    let mut first = true;
    let base_bound = bound;
    for hs in hss.iter() {
        // two-thread harnesses are explored one preemption deeper than three-thread ones
        let bound = if hs.progs.len() <= 2 { base_bound + 1 } else { base_bound };
        // root execution: default schedule; its children are distributed over the shards
        let root = run_one(&[], hs, &dir);
        if first {
            let again = run_one(&[], hs, &dir);
            if outcome_sig(&again) != outcome_sig(&root) || again.labels != root.labels {
                sh.machinery_errors.push(format!("{}: the default schedule is not deterministic", hs.name));
            }
            first = false;
        }
        let children = sched::expand(&root.trace, 0, bound);
        let mut stack: Vec<Vec<usize>> = vec![];
        if job.shard == 0 {
            account(&mut sh, hs, &root, &dir, bound, job);
        }
        for (i, c) in children.into_iter().enumerate() {
            if i % job.nshards == job.shard {
                stack.push(c);
            }
        }
        let mut n = 0u64;
        let mut max_steps = root.trace.len();
        while let Some(prefix) = stack.pop() {
            if t0.elapsed().as_secs() > job.deadline_s {
                sh.capped = true;
                sh.notes.insert(format!("time cap hit in harness {} after {} schedules of this shard", hs.name, n));
                break;
            }
            if n % 50 == 0 {
                job.progress(&json!({"engine": "sched", "harness": hs.name, "schedule": prefix}));
            }
            let o = run_one(&prefix, hs, &dir);
            n += 1;
            max_steps = max_steps.max(o.trace.len());
            if let RunEnd::Diverged(d) = &o.end {
                sh.machinery_errors.push(format!("{}: replay divergence: {} (prefix {:?})", hs.name, d, prefix));
                continue;
            }
            account(&mut sh, hs, &o, &dir, bound, job);
            for c in sched::expand(&o.trace, prefix.len(), bound) {
                stack.push(c);
            }
        }
        sh.count(&format!("schedules:{}", hs.name), n + u64::from(job.shard == 0));
        let k = format!("max-steps:{}", hs.name);
        let e = sh.counters.entry(k).or_insert(0);
        *e = (*e).max(max_steps as u64);
    }
    rmrf(&scratch);
    sh
}

fn account(sh: &mut Shard, hs: &Harness, o: &Outcome, dir: &Path, bound: usize, _job: &Job) {
    sh.evaluations += 1;
    sh.transitions += o.trace.len() as u64;
    for s in &o.control_states {
        sh.states.insert(*s);
    }
    let sig = outcome_sig(o);
    sh.nontrivial.insert(fnv(format!("{}|{}|{:?}", hs.name, sig, o.trace.iter().map(|d| d.thread).collect::<Vec<_>>()).as_bytes()));
    sh.outcome(format!("{}: {}", hs.name, sig));
    if sh.samples.len() < 2 && sched::preemptions(&o.trace) >= 1 {
        sh.samples.push(json!({"harness": hs.name, "schedule": o.labels, "history": o.recs.iter().map(|r| format!("T{} {} = {} [{}..{}]", r.thread, r.op.show(), r.out, r.inv, r.ret)).collect::<Vec<_>>()}));
    }
    if let Some((class, msg)) = judge(o, hs) {
        let choices: Vec<usize> = o.trace.iter().map(|d| d.choice).collect();
        if class.starts_with("MACHINERY") {
            sh.machinery_errors.push(format!("{}: {} {} schedule {:?}", hs.name, class, msg, choices));
            return;
        }
        // confirm by replaying the exact schedule
        let again = run_one(&choices, hs, dir);
        let j2 = judge(&again, hs);
        if j2.as_ref().map(|x| &x.0) != Some(&class) {
            sh.machinery_errors.push(format!("{}: violation {} not reproduced when replaying schedule {:?} (got {:?})", hs.name, class, choices, j2));
            return;
        }
        sh.violate(Violation {
            class: format!("C04:{}[{}]", class, hs.name),
            msg: format!("{} | harness {} programs {:?} | preemptions {} | steps {:?}", msg, hs.name, hs.progs.iter().map(|p| p.iter().map(|o| o.show()).collect::<Vec<_>>()).collect::<Vec<_>>(), sched::preemptions(&o.trace), o.labels),
            case: case_json(hs, &choices, &o.labels, bound),
        });
    }
}

pub fn replay(_prop: &str, case: &Value) -> Vec<Violation> {
    let name = case["harness"].as_str().unwrap_or("");
    let Some(hs) = harnesses().into_iter().find(|h| h.name == name) else { return vec![] };
    let schedule: Vec<usize> = case["schedule"].as_array().map(|a| a.iter().map(|x| x.as_u64().unwrap() as usize).collect()).unwrap_or_default();
    let dir = PathBuf::from(format!("/dev/shm/vh-replay-{}", std::process::id()));
    let o = run_one(&schedule, &hs, &dir);
    rmrf(&dir);
    println!("replayed {} steps: {:?}", o.labels.len(), o.labels);
    for r in &o.recs {
        println!("  T{} {} = {} [{}..{}]", r.thread, r.op.show(), r.out, r.inv, r.ret);
    }
    match judge(&o, &hs) {
        Some((class, msg)) => vec![Violation { class: format!("C04:{}[{}]", class, hs.name), msg, case: case.clone() }],
        None => vec![],
    }
}

pub fn report_meta(_prop: &str, tier: Tier) -> (String, Value, Vec<String>) {
    let b = bound_for(tier);
    let hss = harnesses();
    let rule = format!(
        "for each of {} harnesses (2-3 real threads, 1-2 Handle operations each, on one real store with forced key collisions) every schedule with at most {} preemptions (one more for the two-thread harnesses) is executed under a baton scheduler whose scheduling points are every interposed system call on a store file and every hook point before an access to shared state (writer mutex, KeyDir shard, reader pool, spin loop); depth-first search with replay by prefix; every execution runs to completion and is judged (no panic / error / deadlock / livelock, linearizable against the map model, final reads agree, pool restored). A schedule is distinct+non-trivial by (harness, outcome, thread order). || {}",
        hss.len(),
        b,
        crate::e3b::describe(tier)
    );
    let bounds = json!({"preemption_bound": b, "harnesses": hss.iter().map(|h| json!({"name": h.name, "preload": h.preload.iter().map(|o| o.show()).collect::<Vec<_>>(), "threads": h.progs.iter().map(|p| p.iter().map(|o| o.show()).collect::<Vec<_>>()).collect::<Vec<_>>(), "max_file_size": h.mfs, "concurrency": h.conc, "readers_cache_size": h.cache})).collect::<Vec<_>>()});
    let assumptions = vec![
        "sequentially consistent execution at point granularity: code between two points touches only thread-local data (the crate has no unsafe impl Send/Sync; all cross-thread communication goes through parking_lot::Mutex, DashMap, ArrayQueue, AtomicCell and the file system, all of which carry points)".to_string(),
        "shadow-lock model is conservative: a merge may move to the next KeyDir entry only while no reader holds a shard lock (removes schedules, never adds impossible ones)".to_string(),
        "parking_lot, dashmap, crossbeam primitives are trusted to be linearizable; weak-memory effects below them are not modelled".to_string(),
        "page-cache coherence of MAP_SHARED read mappings with write(2) as on Linux tmpfs".to_string(),
    ];
    (rule, bounds, assumptions)
}
