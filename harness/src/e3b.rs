//! C04, last sentence ("the ability to serve reads is never permanently reduced by earlier
//! operations"): a read that FAILS is an earlier operation, too. Sequential, bounded-exhaustive:
//! every state reached by a short word x every configuration of the reader pool / cache, and in
//! each of them every position at which a get can be failed on its read path (the open of a data
//! file for reading, the mmap of it), one fault per execution. The faulted get may fail (or
//! succeed), it may not panic or return a wrong value; afterwards every reader is back in the pool
//! and every key reads as the model says, as often as the pool is deep.

use crate::common::*;
use crate::e1::{key_bytes, show_word, word_json, Cfg, Exec, Op, Thr, MFS_BIG};
use crate::iohook;
use bitcask::storage::KeyValueStorage;
use serde_json::{json, Value};
use std::path::Path;
use std::time::Instant;

const KEYS: [u8; 2] = [0, 1];

fn alphabet() -> Vec<Op> {
    vec![Op::Set(0, 0), Op::Set(1, 4), Op::Set(0, 1), Op::Del(0), Op::Merge, Op::Reopen]
}

fn cfgs() -> Vec<Cfg> {
    let mut v = vec![];
    for mfs in [0u64, 60, MFS_BIG] {
        for cache in [0usize, 1, 256] {
            for conc in [1usize, 2] {
                v.push(Cfg { mfs, thr: Thr::All, cache, conc, seed: 1, sync_always: false, clock: 0 });
            }
        }
    }
    v
}

fn words(maxlen: usize) -> Vec<Vec<Op>> {
    let a = alphabet();
    let mut out = vec![];
    let mut frontier: Vec<Vec<Op>> = vec![vec![]];
    for _ in 0..maxlen {
        let mut next = vec![];
        for w in &frontier {
            for o in &a {
                let mut w2 = w.clone();
                w2.push(*o);
                next.push(w2);
            }
        }
        out.extend(next.iter().cloned());
        frontier = next;
    }
    // only words that leave something to read
    out.into_iter().filter(|w| w.iter().any(|o| matches!(o, Op::Set(..)))).collect()
}

/// the word leaves `key` present
fn e_has(word: &[Op], key: u8) -> bool {
    let mut present = false;
    for o in word {
        match o {
            Op::Set(k, _) if *k == key => present = true,
            Op::Del(k) if *k == key => present = false,
            _ => {}
        }
    }
    present
}

fn build(dir: &Path, cfg: Cfg, word: &[Op]) -> Result<Exec, String> {
    iohook::set_seed(Some(cfg.seed));
    let mut e = Exec::open(dir, cfg)?;
    for op in word {
        let (got, want) = e.step(*op);
        if got != want {
            return Err(format!("{} returned {} (model {}) while building the state", op.show(), got, want));
        }
    }
    Ok(e)
}

/// One case: state after `word` under `cfg`, get of `key` with its `n`-th read-path call failed
/// (n = 0: count only). Returns (read-path calls seen, outcome summary) or a violation.
pub fn case(dir: &Path, cfg: Cfg, word: &[Op], key: u8, n: usize) -> Result<(usize, String), (String, String)> {
    iohook::rec_start(&dir.to_string_lossy());
    let r = (|| {
        let e = build(dir, cfg, word).map_err(|m| ("MACHINERY".to_string(), m))?;
        let pool0 = e.h().verif_pool();
        let want = e.model.get(&key_bytes(key)).cloned();
        iohook::arm_read_fault(n);
        let got = e.get(key);
        let (seen, fired) = iohook::disarm_read_fault();
        let summary;
        match &got {
            Err(m) if m.starts_with("PANIC") || m.starts_with("HANG") => return Err(("get-panics-when-its-read-path-fails".to_string(), format!("get({}) -> {}", hex(&key_bytes(key)), m))),
            Err(m) => {
                if !fired {
                    return Err(("get-error".to_string(), format!("get({}) failed although nothing was injected: {}", hex(&key_bytes(key)), m)));
                }
                summary = "Err";
            }
            Ok(v) => {
                if *v != want {
                    return Err(("wrong-value-when-the-read-path-fails".to_string(), format!("get({}) = {:?}, model {:?}", hex(&key_bytes(key)), v.as_ref().map(|x| hex(x)), want.as_ref().map(|x| hex(x)))));
                }
                summary = "Ok";
            }
        }
        // nothing is permanently reduced: every reader is back, every key reads, pool-depth + 1 times
        let pool1 = e.h().verif_pool();
        if pool1 != pool0 {
            return Err(("reader-lost-by-a-failed-get".to_string(), format!("reader pool (available, capacity) was {:?} before the get and is {:?} after it", pool0, pool1)));
        }
        for round in 0..=cfg.conc {
            for k in KEYS {
                let want = e.model.get(&key_bytes(k)).cloned();
                match e.get(k) {
                    Ok(v) if v == want => {}
                    other => return Err(("reads-wrong-after-a-failed-get".to_string(), format!("round {}: get({}) = {:?}, model {:?}", round, hex(&key_bytes(k)), other.map(|o| o.map(|x| hex(&x))), want.as_ref().map(|x| hex(x))))),
                }
            }
        }
        if e.h().verif_pool() != pool0 {
            return Err(("reader-lost-by-a-failed-get".to_string(), format!("reader pool {:?} -> {:?} after the follow-up reads", pool0, e.h().verif_pool())));
        }
        Ok((seen, format!("{}{}", summary, if fired { "(faulted)" } else { "" })))
    })();
    iohook::rec_stop();
    r
}

/// One case of the "slow read" enumeration: pool depth 1, the get of `key` is stalled at its `n`-th
/// read-path call (it holds the only pooled reader), another thread gets `other` meanwhile; then
/// the stalled call completes. Nobody panics or hangs, both read the model's values, the pool is whole.
pub fn stall_case(dir: &Path, cfg: Cfg, word: &[Op], key: u8, n: usize, other: u8) -> Result<String, (String, String)> {
    use std::time::Duration;
    iohook::rec_start(&dir.to_string_lossy());
    let r = (|| {
        let e = build(dir, cfg, word).map_err(|m| ("MACHINERY".to_string(), m))?;
        let pool0 = e.h().verif_pool();
        let want_h = e.model.get(&key_bytes(key)).cloned();
        let want_g = e.model.get(&key_bytes(other)).cloned();
        let root = dir.to_string_lossy().to_string();
        let (h1, h2) = (e.h().clone(), e.h().clone());
        let (kb, ob) = (key_bytes(key), key_bytes(other));
        let root1 = root.clone();
        iohook::stall_reset();
        let th = std::thread::spawn(move || {
            iohook::rec_start(&root1);
            iohook::arm_read_stall(n);
            let r = std::panic::catch_unwind(std::panic::AssertUnwindSafe(|| h1.get(bytes::Bytes::from(kb)).map(|o| o.map(|v| v.to_vec())).map_err(|e| e.to_string())));
            iohook::disarm_read_stall();
            iohook::rec_stop();
            r.map_err(|p| panic_text(p))
        });
        let t0 = Instant::now();
        while !iohook::stall_reached() && !th.is_finished() && t0.elapsed() < Duration::from_secs(5) {
            std::thread::sleep(Duration::from_micros(50));
        }
        if !iohook::stall_reached() {
            iohook::stall_release();
            let _ = th.join();
            return Ok("position-absent".to_string());
        }
        let tg = std::thread::spawn(move || {
            let r = std::panic::catch_unwind(std::panic::AssertUnwindSafe(|| h2.get(bytes::Bytes::from(ob)).map(|o| o.map(|v| v.to_vec())).map_err(|e| e.to_string())));
            r.map_err(|p| panic_text(p))
        });
        let t1 = Instant::now();
        while !tg.is_finished() && t1.elapsed() < Duration::from_millis(20) {
            std::thread::sleep(Duration::from_micros(200));
        }
        let g_waited = !tg.is_finished();
        iohook::stall_release();
        let t2 = Instant::now();
        while !(th.is_finished() && tg.is_finished()) && t2.elapsed() < Duration::from_secs(10) {
            std::thread::sleep(Duration::from_micros(200));
        }
        if !(th.is_finished() && tg.is_finished()) {
            return Err(("get-hangs-after-the-readers-were-busy".to_string(), format!("10 s after the slow read completed: the slow get has {}returned, the other get has {}returned", if th.is_finished() { "" } else { "not " }, if tg.is_finished() { "" } else { "not " })));
        }
        for (who, res, want) in [("the slow get", th.join().unwrap(), &want_h), ("the get that found every reader busy", tg.join().unwrap(), &want_g)] {
            match res {
                Err(p) => return Err(("get-panics-when-the-readers-are-busy".to_string(), format!("{} panicked: {}", who, p))),
                Ok(Err(m)) => return Err(("get-error".to_string(), format!("{} failed although nothing was injected: {}", who, m))),
                Ok(Ok(v)) => {
                    if &v != want {
                        return Err(("wrong-value-when-the-readers-are-busy".to_string(), format!("{} returned {:?}, model {:?}", who, v.as_ref().map(|x| hex(x)), want.as_ref().map(|x| hex(x)))));
                    }
                }
            }
        }
        let pool1 = e.h().verif_pool();
        if pool1 != pool0 {
            return Err(("reader-pool-changed-by-busy-readers".to_string(), format!("reader pool (available, capacity) was {:?} before and is {:?} after", pool0, pool1)));
        }
        for round in 0..=cfg.conc {
            for k in KEYS {
                let want = e.model.get(&key_bytes(k)).cloned();
                match e.get(k) {
                    Ok(v) if v == want => {}
                    other => return Err(("reads-wrong-after-the-readers-were-busy".to_string(), format!("round {}: get({}) = {:?}, model {:?}", round, hex(&key_bytes(k)), other.map(|o| o.map(|x| hex(&x))), want.as_ref().map(|x| hex(x))))),
                }
            }
        }
        Ok(format!("slow-read:{}", if g_waited { "other-get-waited" } else { "other-get-served" }))
    })();
    iohook::rec_stop();
    r
}
/// A get whose every open of a data file is slow, and a full merge (which relocates the value and
/// removes the file) that completes during each of those opens if the store lets it: the get
/// returns the model's value however many merges overtake it.
pub fn merge_storm_case(dir: &Path, cfg: Cfg, word: &[Op], key: u8) -> Result<String, (String, String)> {
    use std::time::Duration;
    iohook::rec_start(&dir.to_string_lossy());
    let r = (|| {
        let e = build(dir, cfg, word).map_err(|m| ("MACHINERY".to_string(), m))?;
        let want = e.model.get(&key_bytes(key)).cloned();
        let root = dir.to_string_lossy().to_string();
        let h1 = e.h().clone();
        let kb = key_bytes(key);
        iohook::stall_rounds_reset();
        let th = std::thread::spawn(move || {
            iohook::rec_start(&root);
            iohook::stall_every_open_on_this_thread(true);
            let r = std::panic::catch_unwind(std::panic::AssertUnwindSafe(|| h1.get(bytes::Bytes::from(kb)).map(|o| o.map(|v| v.to_vec())).map_err(|e| e.to_string())));
            iohook::stall_every_open_on_this_thread(false);
            iohook::rec_stop();
            r.map_err(|p| panic_text(p))
        });
        let mut rounds = 0usize;
        let mut merges_done = 0usize;
        while rounds < 12 {
            let t0 = Instant::now();
            while iohook::stall_round_entered() <= rounds && !th.is_finished() && t0.elapsed() < Duration::from_secs(5) {
                std::thread::sleep(Duration::from_micros(50));
            }
            if th.is_finished() || iohook::stall_round_entered() <= rounds {
                break;
            }
            rounds += 1;
            // the get is inside its open: a merge gets the chance to complete now
            let h2 = e.h().clone();
            let root2 = dir.to_string_lossy().to_string();
            let tm = std::thread::spawn(move || {
                iohook::rec_start(&root2);
                let r = h2.verif_merge().map_err(|e| e.to_string());
                iohook::rec_stop();
                r
            });
            let t1 = Instant::now();
            while !tm.is_finished() && t1.elapsed() < Duration::from_millis(30) {
                std::thread::sleep(Duration::from_micros(200));
            }
            let merged_meanwhile = tm.is_finished();
            iohook::stall_round_release(rounds);
            let t2 = Instant::now();
            while !tm.is_finished() && t2.elapsed() < Duration::from_secs(10) {
                std::thread::sleep(Duration::from_micros(200));
            }
            if !tm.is_finished() {
                iohook::stall_round_release(usize::MAX / 2);
                return Err(("merge-hangs-beside-a-slow-get".to_string(), format!("round {}: the merge has not returned 10 s after the get's open completed", rounds)));
            }
            match tm.join() {
                Ok(Ok(())) => {}
                Ok(Err(m)) => return Err(("merge-fails-beside-a-slow-get".to_string(), format!("round {}: {}", rounds, m))),
                Err(_) => return Err(("merge-panics-beside-a-slow-get".to_string(), format!("round {}", rounds))),
            }
            if merged_meanwhile {
                merges_done += 1;
            }
        }
        iohook::stall_round_release(usize::MAX / 2);
        let t3 = Instant::now();
        while !th.is_finished() && t3.elapsed() < Duration::from_secs(10) {
            std::thread::sleep(Duration::from_micros(200));
        }
        if !th.is_finished() {
            return Err(("get-hangs-beside-merges".to_string(), format!("after {} rounds ({} merges completed while the get was inside an open) the get has not returned", rounds, merges_done)));
        }
        match th.join().unwrap() {
            Err(p) => return Err(("get-panics-beside-merges".to_string(), format!("after {} merges overtook it: {}", merges_done, p))),
            Ok(Err(m)) => return Err(("get-error".to_string(), format!("get({}) failed although nothing was injected ({} merges overtook it): {}", hex(&key_bytes(key)), merges_done, m))),
            Ok(Ok(v)) => {
                if v != want {
                    return Err(("wrong-value-while-merges-relocate-it".to_string(), format!("get({}) = {:?}, model {:?}; {} merges completed while the get was inside an open of a data file, {} opens in all", hex(&key_bytes(key)), v.as_ref().map(|x| hex(x)), want.as_ref().map(|x| hex(x)), merges_done, rounds)));
                }
            }
        }
        for k in KEYS {
            let want = e.model.get(&key_bytes(k)).cloned();
            match e.get(k) {
                Ok(v) if v == want => {}
                other => return Err(("reads-wrong-after-merges-beside-a-get".to_string(), format!("get({}) = {:?}, model {:?}", hex(&key_bytes(k)), other.map(|o| o.map(|x| hex(&x))), want.as_ref().map(|x| hex(x))))),
            }
        }
        Ok(format!("merge-storm:{}-opens:{}", rounds.min(9), if merges_done > 0 { "overtaken" } else { "merge-waited" }))
    })();
    iohook::rec_stop();
    r
}
fn panic_text(p: Box<dyn std::any::Any + Send>) -> String {
    p.downcast_ref::<String>().cloned().or_else(|| p.downcast_ref::<&str>().map(|s| s.to_string())).unwrap_or_else(|| "panic".into())
}

pub fn worker(job: &Job) -> Shard {
    let mut sh = Shard::default();
    let t0 = Instant::now();
    let scratch = job.scratch();
    let dir = scratch.join("store");
    let ws = words(job.tier.pick(3, 4));
    let cs = cfgs();
    let mut idx = 0usize;
    let mut positions = 0u64;
    for cfg in &cs {
        for w in &ws {
            idx += 1;
            if idx % job.nshards != job.shard {
                continue;
            }
            if t0.elapsed().as_secs() > job.deadline_s {
                sh.capped = true;
                sh.notes.insert("read-fault pass: time cap hit".into());
                rmrf(&scratch);
                return sh;
            }
            for key in KEYS {
                let mk = |n: usize| json!({"engine": "sched", "kind": "readfault", "cfg": cfg.to_json(), "word": word_json(w), "key": key, "fault_at_read_path_call": n});
                if idx % 32 == 0 {
                    job.progress(&mk(0));
                }
                // n = 0 counts the read-path calls of a fault-free get in this state
                let total = match case(&dir, *cfg, w, key, 0) {
                    Ok((seen, _)) => seen,
                    Err((c, m)) if c == "MACHINERY" => {
                        sh.machinery_errors.push(format!("readfault {} | {} under {:?}", m, show_word(w), cfg));
                        continue;
                    }
                    Err((c, m)) => {
                        sh.violate(Violation { class: format!("C04:{}", c), msg: format!("{} | no fault injected | state after {} under {:?}", m, show_word(w), cfg), case: mk(0) });
                        continue;
                    }
                };
                sh.evaluations += 1;
                // merges that overtake a slow get (no cached descriptor: every get opens its file)
                if cfg.cache == 0 && w.len() <= 2 && e_has(w, key) {
                    sh.evaluations += 1;
                    sh.transitions += 3;
                    let mk3 = json!({"engine": "sched", "kind": "readfault", "mode": "merge-storm", "cfg": cfg.to_json(), "word": word_json(w), "key": key, "fault_at_read_path_call": 0});
                    match merge_storm_case(&dir, *cfg, w, key) {
                        Ok(o) => sh.outcome(o),
                        Err((c, m)) if c == "MACHINERY" => sh.machinery_errors.push(format!("merge storm {} | {} under {:?}", m, show_word(w), cfg)),
                        Err((c, m)) => sh.violate(Violation { class: format!("C04:{}", c), msg: format!("{} | state after {} under {:?}", m, show_word(w), cfg), case: mk3 }),
                    }
                }
                // a SLOW read instead of a failing one: with a pool of one reader, the get is stalled
                // at each of its read-path calls while another thread gets either key
                if cfg.conc == 1 && w.len() <= 2 {
                    for n in 1..=total {
                        for other in KEYS {
                            sh.evaluations += 1;
                            sh.transitions += 2;
                            let mk2 = json!({"engine": "sched", "kind": "readfault", "mode": "stall", "cfg": cfg.to_json(), "word": word_json(w), "key": key, "fault_at_read_path_call": n, "other": other});
                            match stall_case(&dir, *cfg, w, key, n, other) {
                                Ok(o) => sh.outcome(o),
                                Err((c, m)) if c == "MACHINERY" => sh.machinery_errors.push(format!("slow read {} | {} under {:?}", m, show_word(w), cfg)),
                                Err((c, m)) => sh.violate(Violation { class: format!("C04:{}", c), msg: format!("{} | read-path call {} of {} of get({}) takes long (pool of one reader), get({}) on another thread meanwhile | state after {} under {:?}", m, n, total, hex(&key_bytes(key)), hex(&key_bytes(other)), show_word(w), cfg), case: mk2 }),
                            }
                        }
                    }
                }
                for n in 1..=total {
                    sh.evaluations += 1;
                    sh.transitions += 1;
                    positions += 1;
                    sh.states.insert(fnv(format!("rf{:?}{:?}{}{}", cfg, w, key, n).as_bytes()));
                    sh.nontrivial.insert(fnv(format!("rf{:?}{:?}{}{}", cfg, w, key, n).as_bytes()));
                    match case(&dir, *cfg, w, key, n) {
                        Ok((_, o)) => sh.outcome(format!("readfault:{}", o)),
                        Err((c, m)) if c == "MACHINERY" => sh.machinery_errors.push(format!("readfault {} | {} under {:?}", m, show_word(w), cfg)),
                        Err((c, m)) => sh.violate(Violation { class: format!("C04:{}", c), msg: format!("{} | read-path call {} of {} of get({}) failed | state after {} under {:?}", m, n, total, hex(&key_bytes(key)), show_word(w), cfg), case: mk(n) }),
                    }
                }
            }
        }
    }
    sh.count("readfault:fault-positions", positions);
    rmrf(&scratch);
    sh
}

pub fn replay(case_json: &Value) -> Vec<Violation> {
    let dir = std::path::PathBuf::from(format!("/dev/shm/vh-replay-{}", std::process::id()));
    let (Some(cfg), Some(word)) = (Cfg::from_json(&case_json["cfg"]), crate::e1::word_from_json(&case_json["word"])) else { return vec![] };
    let key = case_json["key"].as_u64().unwrap_or(0) as u8;
    let n = case_json["fault_at_read_path_call"].as_u64().unwrap_or(0) as usize;
    if case_json["mode"] == "merge-storm" {
        let r = merge_storm_case(&dir, cfg, &word, key);
        rmrf(&dir);
        println!("replayed merge-storm case: {:?}", r);
        return match r {
            Err((c, m)) if c != "MACHINERY" => vec![Violation { class: format!("C04:{}", c), msg: m, case: case_json.clone() }],
            _ => vec![],
        };
    }
    if case_json["mode"] == "stall" {
        let r = stall_case(&dir, cfg, &word, key, n, case_json["other"].as_u64().unwrap_or(0) as u8);
        rmrf(&dir);
        println!("replayed slow-read case: {:?}", r);
        return match r {
            Err((c, m)) if c != "MACHINERY" => vec![Violation { class: format!("C04:{}", c), msg: m, case: case_json.clone() }],
            _ => vec![],
        };
    }
    let r = case(&dir, cfg, &word, key, n);
    rmrf(&dir);
    println!("replayed read-fault case: {:?}", r);
    match r {
        Err((c, m)) if c != "MACHINERY" => vec![Violation { class: format!("C04:{}", c), msg: m, case: case_json.clone() }],
        _ => vec![],
    }
}

pub fn describe(tier: Tier) -> String {
    format!("Second pass (sequential, for the last sentence of the property): in every state reached by every word of length <= {} over {{set a, set b 9000 B, overwrite a, del a, merge, reopen}} x max_file_size {{0, 60, 2^31}} x reader cache {{0, 1, 256}} x pool depth {{1, 2}}, a get of each key is repeated once per read-path call it makes (open of a data file for reading -> EMFILE, mmap -> ENOMEM) with exactly that call failing; the get may fail but not panic or return a wrong value, afterwards the pool holds every reader again and every key reads as the model says pool-depth + 1 times. With a pool of one reader and words of length <= 2, each of those calls is also made SLOW instead of failing (it completes when the harness says so) while another thread gets either key: nobody panics or hangs, both reads are right, the pool is whole afterwards.", tier.pick(3, 4))
}
