//! Shared plumbing: shard results, worker processes, evidence files, known findings, exit codes.

use std::collections::{BTreeMap, BTreeSet, HashSet};
use std::io::Write;
use std::path::{Path, PathBuf};
use std::process::{Command, Stdio};
use std::time::Instant;

use serde_json::{json, Map, Value};

/// Where evidence/ and replays/ are written and known_findings.json is read (default /verif;
/// background exploration runs redirect it with VH_VERIF_DIR so they never touch committed evidence).
pub fn verif_dir() -> String {
    std::env::var("VH_VERIF_DIR").unwrap_or_else(|_| "/verif".to_string())
}

#[derive(Clone, Copy, Debug, PartialEq, Eq)]
pub enum Tier {
    Quick,
    Thorough,
}
impl Tier {
    pub fn name(&self) -> &'static str {
        match self {
            Tier::Quick => "quick",
            Tier::Thorough => "thorough",
        }
    }
    pub fn parse(s: &str) -> Tier {
        if s == "thorough" {
            Tier::Thorough
        } else {
            Tier::Quick
        }
    }
    pub fn pick<T>(&self, q: T, t: T) -> T {
        match self {
            Tier::Quick => q,
            Tier::Thorough => t,
        }
    }
}

#[derive(Clone, Debug)]
pub struct Violation {
    /// Root-cause classifier (matched against known_findings.json `key`).
    pub class: String,
    pub msg: String,
    /// Everything needed to re-execute exactly this case.
    pub case: Value,
}

#[derive(Default)]
pub struct Shard {
    pub evaluations: u64,
    pub transitions: u64,
    pub states: HashSet<u64>,
    pub nontrivial: HashSet<u64>,
    pub outcomes: BTreeMap<String, u64>,
    pub counters: BTreeMap<String, u64>,
    pub violations: Vec<Violation>,
    pub viol_counts: BTreeMap<String, u64>,
    pub samples: Vec<Value>,
    pub capped: bool,
    pub notes: BTreeSet<String>,
    pub machinery_errors: Vec<String>,
}

pub const MAX_VIOL_PER_CLASS: u64 = 3;

impl Shard {
    pub fn count(&mut self, k: &str, n: u64) {
        *self.counters.entry(k.to_string()).or_insert(0) += n;
    }
    pub fn outcome(&mut self, k: String) {
        if self.outcomes.len() < 4000 || self.outcomes.contains_key(&k) {
            *self.outcomes.entry(k).or_insert(0) += 1;
        }
    }
    pub fn violate(&mut self, v: Violation) {
        let c = self.viol_counts.entry(v.class.clone()).or_insert(0);
        *c += 1;
        if *c <= MAX_VIOL_PER_CLASS {
            self.violations.push(v);
        }
    }
    pub fn sample(&mut self, v: Value, max: usize) {
        if self.samples.len() < max {
            self.samples.push(v);
        }
    }
    pub fn merge(&mut self, o: Shard) {
        self.evaluations += o.evaluations;
        self.transitions += o.transitions;
        self.states.extend(o.states);
        self.nontrivial.extend(o.nontrivial);
        for (k, v) in o.outcomes {
            *self.outcomes.entry(k).or_insert(0) += v;
        }
        for (k, v) in o.counters {
            *self.counters.entry(k).or_insert(0) += v;
        }
        for (k, v) in o.viol_counts {
            *self.viol_counts.entry(k).or_insert(0) += v;
        }
        self.violations.extend(o.violations);
        for s in o.samples {
            if self.samples.len() < 12 {
                self.samples.push(s);
            }
        }
        self.capped |= o.capped;
        self.notes.extend(o.notes);
        self.machinery_errors.extend(o.machinery_errors);
    }

    pub fn save(&self, path: &Path) {
        let v = json!({
            "evaluations": self.evaluations,
            "transitions": self.transitions,
            "outcomes": self.outcomes,
            "counters": self.counters,
            "viol_counts": self.viol_counts,
            "violations": self.violations.iter().map(|v| json!({"class": v.class, "msg": v.msg, "case": v.case})).collect::<Vec<_>>(),
            "samples": self.samples,
            "capped": self.capped,
            "notes": self.notes,
            "machinery_errors": self.machinery_errors,
        });
        std::fs::write(path, serde_json::to_vec(&v).unwrap()).unwrap();
        let dump = |set: &HashSet<u64>, ext: &str| {
            let mut b = Vec::with_capacity(set.len() * 8);
            for s in set {
                b.extend_from_slice(&s.to_le_bytes());
            }
            std::fs::write(path.with_extension(ext), b).unwrap();
        };
        dump(&self.states, "states");
        dump(&self.nontrivial, "nt");
    }

    pub fn load(path: &Path) -> Option<Shard> {
        let v: Value = serde_json::from_slice(&std::fs::read(path).ok()?).ok()?;
        let mut s = Shard::default();
        s.evaluations = v["evaluations"].as_u64()?;
        s.transitions = v["transitions"].as_u64()?;
        let m = |x: &Value| -> BTreeMap<String, u64> { x.as_object().map(|o| o.iter().map(|(k, v)| (k.clone(), v.as_u64().unwrap_or(0))).collect()).unwrap_or_default() };
        s.outcomes = m(&v["outcomes"]);
        s.counters = m(&v["counters"]);
        s.viol_counts = m(&v["viol_counts"]);
        for x in v["violations"].as_array()? {
            s.violations.push(Violation { class: x["class"].as_str()?.to_string(), msg: x["msg"].as_str()?.to_string(), case: x["case"].clone() });
        }
        s.samples = v["samples"].as_array()?.clone();
        s.capped = v["capped"].as_bool()?;
        s.notes = v["notes"].as_array()?.iter().filter_map(|x| x.as_str().map(|s| s.to_string())).collect();
        s.machinery_errors = v["machinery_errors"].as_array()?.iter().filter_map(|x| x.as_str().map(|s| s.to_string())).collect();
        let rd = |ext: &str| -> HashSet<u64> {
            std::fs::read(path.with_extension(ext)).map(|b| b.chunks_exact(8).map(|c| u64::from_le_bytes(c.try_into().unwrap())).collect()).unwrap_or_default()
        };
        s.states = rd("states");
        s.nontrivial = rd("nt");
        Some(s)
    }
}

pub fn fnv(bytes: &[u8]) -> u64 {
    let mut h: u64 = 0xcbf29ce484222325;
    for b in bytes {
        h ^= *b as u64;
        h = h.wrapping_mul(0x100000001b3);
    }
    h
}
pub fn fnv_str(s: &str) -> u64 {
    fnv(s.as_bytes())
}

/// What a worker process is asked to do.
#[derive(Clone, Debug)]
pub struct Job {
    pub prop: String,
    pub tier: Tier,
    pub seed: u64,
    pub shard: usize,
    pub nshards: usize,
    pub outdir: PathBuf,
    /// Engine-specific sub-task name (a check may consist of several passes).
    pub pass: String,
    pub deadline_s: u64,
}

impl Job {
    pub fn scratch(&self) -> PathBuf {
        let p = self.outdir.join(format!("w{}-{}", self.pass, self.shard));
        let _ = std::fs::create_dir_all(&p);
        p
    }
    pub fn progress_path(&self) -> PathBuf {
        self.outdir.join(format!("progress-{}-{}", self.pass, self.shard))
    }
    /// Record the case about to be executed, so that a worker death can be attributed.
    pub fn progress(&self, case: &Value) {
        let _ = std::fs::write(self.progress_path(), serde_json::to_vec(case).unwrap());
    }
    pub fn result_path(&self) -> PathBuf {
        self.outdir.join(format!("shard-{}-{}.json", self.pass, self.shard))
    }
}

pub fn ncores() -> usize {
    std::env::var("VERIF_JOBS").ok().and_then(|s| s.parse().ok()).unwrap_or_else(|| std::thread::available_parallelism().map(|n| n.get()).unwrap_or(4)).clamp(1, 64)
}

pub struct PassOutcome {
    pub shard: Shard,
    /// (shard index, exit description, last progress case) of workers that died.
    pub deaths: Vec<(usize, String, Value)>,
}

/// Run one pass of a check on `nshards` worker processes and merge their results.
pub fn run_pass(prop: &str, tier: Tier, seed: u64, pass: &str, nshards: usize, outdir: &Path, deadline_s: u64) -> PassOutcome {
    let exe = std::env::current_exe().unwrap();
    let mut kids = vec![];
    for i in 0..nshards {
        let child = Command::new(&exe)
            .args(["worker", prop, tier.name(), &seed.to_string(), &i.to_string(), &nshards.to_string(), outdir.to_str().unwrap(), pass, &deadline_s.to_string()])
            .stdin(Stdio::null())
            .stdout(Stdio::inherit())
            .stderr(Stdio::inherit())
            .spawn()
            .expect("spawn worker");
        kids.push((i, child));
    }
    let mut merged = Shard::default();
    let mut deaths = vec![];
    // A worker that stays on one case for this long is taken to hang in it (no case takes a
    // hundredth of that on an idle machine): it is killed and reported like a worker that died.
    let hang_s: u64 = std::env::var("VH_HANG_S").ok().and_then(|s| s.parse().ok()).unwrap_or(1500);
    let t_spawn = std::time::SystemTime::now();
    let mut running: Vec<(usize, std::process::Child, Option<std::process::ExitStatus>, bool)> = kids.into_iter().map(|(i, c)| (i, c, None, false)).collect();
    loop {
        let mut alive = 0;
        for (i, c, st, hung) in running.iter_mut() {
            if st.is_some() {
                continue;
            }
            match c.try_wait().expect("wait worker") {
                Some(s) => *st = Some(s),
                None => {
                    alive += 1;
                    let job = Job { prop: prop.into(), tier, seed, shard: *i, nshards, outdir: outdir.to_path_buf(), pass: pass.into(), deadline_s };
                    let last = std::fs::metadata(job.progress_path()).and_then(|m| m.modified()).unwrap_or(t_spawn).max(t_spawn);
                    if last.elapsed().map_or(false, |d| d.as_secs() > hang_s) {
                        *hung = true;
                        let _ = c.kill();
                    }
                }
            }
        }
        if alive == 0 {
            break;
        }
        std::thread::sleep(std::time::Duration::from_millis(100));
    }
    for (i, _c, st, hung) in running {
        let st = st.unwrap();
        let job = Job { prop: prop.into(), tier, seed, shard: i, nshards, outdir: outdir.to_path_buf(), pass: pass.into(), deadline_s };
        let res = Shard::load(&job.result_path());
        match (st.success(), res) {
            (true, Some(s)) => merged.merge(s),
            (_, r) => {
                if let Some(s) = r {
                    merged.merge(s);
                }
                let case = std::fs::read(job.progress_path()).ok().and_then(|b| serde_json::from_slice(&b).ok()).unwrap_or(Value::Null);
                let how = if hung { format!("killed: no progress for {} s, the call under test does not return", hang_s) } else { format!("{:?}", st) };
                deaths.push((i, how, case));
            }
        }
    }
    PassOutcome { shard: merged, deaths }
}

// ---------------------------------------------------------------------------------------------
// known findings

#[derive(Clone, Debug)]
pub struct Finding {
    pub property: String,
    pub key: String,
    pub status: String,
    pub commit: String,
    pub what: String,
}

pub fn load_findings() -> Vec<Finding> {
    let p = Path::new(&verif_dir()).join("known_findings.json");
    let Ok(b) = std::fs::read(&p) else { return vec![] };
    let v: Value = serde_json::from_slice(&b).expect("known_findings.json is not valid JSON");
    v["findings"]
        .as_array()
        .map(|a| {
            a.iter()
                .map(|f| Finding {
                    property: f["property"].as_str().unwrap_or("").into(),
                    key: f["key"].as_str().unwrap_or("").into(),
                    status: f["status"].as_str().unwrap_or("").into(),
                    commit: f["commit"].as_str().unwrap_or("").into(),
                    what: f["what"].as_str().unwrap_or("").into(),
                })
                .collect()
        })
        .unwrap_or_default()
}

// ---------------------------------------------------------------------------------------------
// finalisation: evidence + verdict lines + exit code

pub struct Report {
    pub prop: String,
    pub tier: Tier,
    pub seed: u64,
    pub level: &'static str,
    pub rule: String,
    pub bounds: Value,
    pub assumptions: Vec<String>,
    pub exhaustive: bool,
    pub shard: Shard,
    pub t0: Instant,
    pub extra: Map<String, Value>,
}

pub fn write_replay(prop: &str, v: &Violation) -> PathBuf {
    let dir = Path::new(&verif_dir()).join("replays");
    let _ = std::fs::create_dir_all(&dir);
    let body = json!({"property": prop, "class": v.class, "msg": v.msg, "case": v.case});
    let txt = serde_json::to_string_pretty(&body).unwrap();
    let h = fnv(serde_json::to_string(&json!({"c": v.class, "case": v.case})).unwrap().as_bytes());
    let p = dir.join(format!("{}-{:016x}.json", prop, h));
    std::fs::write(&p, txt).unwrap();
    p
}

pub fn finalize(mut r: Report) -> i32 {
    let findings = load_findings();
    let mut known_lines = vec![];
    let mut unknown: Vec<&Violation> = vec![];
    let mut known_classes: BTreeMap<String, u64> = BTreeMap::new();
    let mut seen_class = BTreeSet::new();
    for v in &r.shard.violations {
        let k = findings.iter().find(|f| f.property == r.prop && f.status == "known" && f.key == v.class);
        match k {
            Some(f) => {
                if seen_class.insert(v.class.clone()) {
                    known_lines.push(format!("KNOWN-FINDING: property={} key={} occurrences={} {}", r.prop, f.key, r.shard.viol_counts.get(&v.class).copied().unwrap_or(1), f.what));
                }
                *known_classes.entry(v.class.clone()).or_insert(0) += 1;
            }
            None => unknown.push(v),
        }
    }
    // simplest counter-example first: smallest failing step, then shortest description
    unknown.sort_by_key(|v| (v.class.clone(), v.case["failing_step"].as_u64().unwrap_or(u64::MAX), v.msg.len()));
    let mut exit = 0;
    let mut out = std::io::stdout().lock();
    for l in &known_lines {
        let _ = writeln!(out, "{}", l);
    }
    let mut printed = BTreeMap::new();
    for v in &unknown {
        let n = printed.entry(v.class.clone()).or_insert(0u32);
        *n += 1;
        if *n > 2 {
            continue;
        }
        let p = write_replay(&r.prop, v);
        let _ = writeln!(out, "VIOLATION property={} replay={}", r.prop, p.display());
        let _ = writeln!(out, "  class={} total_in_class={} :: {}", v.class, r.shard.viol_counts.get(&v.class).copied().unwrap_or(1), v.msg);
        exit = 1;
    }
    if !r.shard.machinery_errors.is_empty() {
        for e in r.shard.machinery_errors.iter().take(5) {
            let _ = writeln!(out, "MACHINERY-ERROR property={} {}", r.prop, e);
        }
        if exit == 0 {
            exit = 2;
        }
    }
    let unknown_total: u64 = r.shard.viol_counts.iter().filter(|(k, _)| !known_classes.contains_key(*k)).map(|(_, v)| *v).sum();
    let exhaustive = r.exhaustive && !r.shard.capped;
    let wall = r.t0.elapsed().as_secs_f64();
    let mut cov = Map::new();
    cov.insert("evaluations".into(), json!(r.shard.evaluations));
    cov.insert("distinct_nontrivial".into(), json!(r.shard.nontrivial.len()));
    cov.insert("rule".into(), json!(r.rule));
    cov.insert("states".into(), json!(r.shard.states.len().max(1)));
    cov.insert("transitions".into(), json!(r.shard.transitions.max(1)));
    cov.insert("traces_validated_against_impl".into(), json!(r.shard.evaluations));
    cov.insert("exhaustive".into(), json!(exhaustive));
    cov.insert("capped".into(), json!(r.shard.capped));
    cov.insert("bounds".into(), r.bounds.clone());
    cov.insert("distinct_outcomes".into(), json!(r.shard.outcomes.len()));
    let mut top: Vec<(&String, &u64)> = r.shard.outcomes.iter().collect();
    top.sort_by(|a, b| b.1.cmp(a.1));
    cov.insert("outcomes_top".into(), json!(top.iter().take(12).map(|(k, v)| json!({"outcome": k, "count": v})).collect::<Vec<_>>()));
    cov.insert("counters".into(), json!(r.shard.counters));
    cov.insert("notes".into(), json!(r.shard.notes));
    if r.shard.samples.is_empty() {
        r.shard.samples.push(json!("no sample recorded"));
    }
    cov.insert("samples".into(), json!(r.shard.samples));
    cov.insert("known_findings_matched".into(), json!(known_classes.keys().collect::<Vec<_>>()));
    cov.insert("violation_classes".into(), json!(r.shard.viol_counts));
    for (k, v) in r.extra.iter() {
        cov.insert(k.clone(), v.clone());
    }
    let ev = json!({
        "property_id": r.prop,
        "tier": r.tier.name(),
        "seed": r.seed,
        "level": r.level,
        "coverage": Value::Object(cov),
        "assumptions": r.assumptions,
        "wall_s": (wall * 1000.0).round() / 1000.0,
        "violations": unknown_total,
        "machinery_errors": r.shard.machinery_errors.len(),
    });
    let edir = Path::new(&verif_dir()).join("evidence");
    let _ = std::fs::create_dir_all(&edir);
    std::fs::write(edir.join(format!("{}.json", r.prop)), serde_json::to_string_pretty(&ev).unwrap()).unwrap();
    let _ = writeln!(
        out,
        "{} {}: evaluations={} states={} transitions={} outcomes={} exhaustive={} violations={} known={} wall={:.1}s -> exit {}",
        r.prop,
        r.tier.name(),
        r.shard.evaluations,
        r.shard.states.len(),
        r.shard.transitions,
        r.shard.outcomes.len(),
        exhaustive,
        unknown_total,
        known_classes.len(),
        wall,
        exit
    );
    exit
}

pub fn hex(b: &[u8]) -> String {
    if b.len() <= 24 && b.iter().all(|c| c.is_ascii_graphic() || *c == b' ') {
        return format!("'{}'", String::from_utf8_lossy(b));
    }
    if b.len() > 24 {
        return format!("<{}B:{:016x}>", b.len(), fnv(b));
    }
    b.iter().map(|c| format!("{:02x}", c)).collect::<Vec<_>>().join("")
}

/// Remove a directory tree, ignoring errors.
pub fn rmrf(p: &Path) {
    let _ = std::fs::remove_dir_all(p);
}

pub fn list_dir(dir: &Path) -> BTreeMap<String, Vec<u8>> {
    let mut m = BTreeMap::new();
    if let Ok(rd) = std::fs::read_dir(dir) {
        for e in rd.flatten() {
            if e.path().is_file() {
                if let Ok(b) = std::fs::read(e.path()) {
                    m.insert(e.file_name().to_string_lossy().to_string(), b);
                }
            }
        }
    }
    m
}

/// `12.bitcask.data` -> (12, true); `12.bitcask.hint` -> (12, false)
pub fn parse_name(n: &str) -> Option<(u64, bool)> {
    let mut it = n.split('.');
    let id: u64 = it.next()?.parse().ok()?;
    if it.next()? != "bitcask" {
        return None;
    }
    match it.next()? {
        "data" => Some((id, true)),
        "hint" => Some((id, false)),
        _ => None,
    }
}
