//! E4 `resp` — bounded-exhaustive byte strings, frames and stream scripts against the real
//! `Frame::{check,parse}` and `Connection::{read_frame,write_frame}` (DESIGN §5 E4). Serves C07, C08.

use std::cell::RefCell;
use std::collections::VecDeque;
use std::future::Future;
use std::io::Cursor;
use std::pin::Pin;
use std::rc::Rc;
use std::task::{Context, Poll, RawWaker, RawWakerVTable, Waker};
use std::time::Instant;

use bitcask::net::connection::Connection;
use bitcask::net::frame::{Error as FErr, Frame};
use bytes::Bytes;
use serde_json::{json, Value};
use tokio::io::{AsyncRead, AsyncWrite, ReadBuf};

use crate::common::*;
use crate::e2::{in_child, ChildOut};
use crate::model::{ref_decimal, resp_decode, resp_encode, RErr, RFrame};

// ---------------------------------------------------------------------------------------------
// calling the subject

#[derive(Clone, Debug, PartialEq, Eq)]
pub enum PRes {
    Ok(RFrame, usize),
    Incomplete,
    Error(String),
    Panic(String),
}
#[derive(Clone, Debug, PartialEq, Eq)]
pub enum CRes {
    Ok(usize),
    Incomplete,
    Error(String),
    Panic(String),
}

fn to_r(f: &Frame) -> RFrame {
    match f {
        Frame::SimpleString(s) => RFrame::Simple(s.as_bytes().to_vec()),
        Frame::Error(s) => RFrame::Error(s.as_bytes().to_vec()),
        Frame::Integer(i) => RFrame::Integer(*i),
        Frame::BulkString(b) => RFrame::Bulk(b.to_vec()),
        Frame::Null => RFrame::Null,
        Frame::Array(a) => RFrame::Array(a.iter().map(to_r).collect()),
    }
}
fn from_r(f: &RFrame) -> Frame {
    match f {
        RFrame::Simple(s) => Frame::SimpleString(String::from_utf8(s.clone()).unwrap()),
        RFrame::Error(s) => Frame::Error(String::from_utf8(s.clone()).unwrap()),
        RFrame::Integer(i) => Frame::Integer(*i),
        RFrame::Bulk(b) => Frame::BulkString(Bytes::from(b.clone())),
        RFrame::Null => Frame::Null,
        RFrame::Array(a) => Frame::Array(a.iter().map(from_r).collect()),
    }
}

fn pmsg(e: Box<dyn std::any::Any + Send>) -> String {
    if let Some(s) = e.downcast_ref::<&str>() {
        s.to_string()
    } else if let Some(s) = e.downcast_ref::<String>() {
        s.clone()
    } else {
        "?".into()
    }
}

pub fn call_parse(s: &[u8]) -> PRes {
    match std::panic::catch_unwind(|| {
        let mut cur = Cursor::new(s);
        Frame::parse(&mut cur).map(|f| (to_r(&f), cur.position() as usize))
    }) {
        Ok(Ok((f, n))) => PRes::Ok(f, n),
        Ok(Err(FErr::Incomplete)) => PRes::Incomplete,
        Ok(Err(e)) => PRes::Error(format!("{:?}", e).chars().take(60).collect()),
        Err(e) => PRes::Panic(pmsg(e)),
    }
}
pub fn call_check(s: &[u8]) -> CRes {
    match std::panic::catch_unwind(|| {
        let mut cur = Cursor::new(s);
        Frame::check(&mut cur).map(|_| cur.position() as usize)
    }) {
        Ok(Ok(n)) => CRes::Ok(n),
        Ok(Err(FErr::Incomplete)) => CRes::Incomplete,
        Ok(Err(e)) => CRes::Error(format!("{:?}", e).chars().take(60).collect()),
        Err(e) => CRes::Panic(pmsg(e)),
    }
}

/// The C07 oracle on one input. Returns (class, message) per violation.
pub fn judge_input(s: &[u8], check_prefixes: bool) -> Vec<(String, String)> {
    let mut out = vec![];
    let c = call_check(s);
    let p = call_parse(s);
    if let CRes::Panic(m) = &c {
        out.push(("check-panics".to_string(), m.clone()));
    }
    if let PRes::Panic(m) = &p {
        out.push(("parse-panics".to_string(), m.clone()));
    }
    if let CRes::Ok(n) = &c {
        let n = *n;
        if n > s.len() {
            out.push(("check-accepts-more-bytes-than-given".into(), format!("check consumed {} of {}", n, s.len())));
        } else {
            match call_parse(&s[..n]) {
                PRes::Ok(_, m) if m != n => out.push(("check-length-differs-from-parse-length".into(), format!("check accepts {} bytes, parse of those consumes {}", n, m))),
                PRes::Panic(m) => out.push(("parse-after-check-panics".into(), m)),
                _ => {}
            }
        }
    }
    // the connection checks and parses the same buffer (which may hold more than the frame) and
    // then discards exactly the checked length: the two must agree in situ as well
    if let (CRes::Ok(n), PRes::Ok(_, m)) = (&c, &p) {
        if n != m && *n <= s.len() {
            out.push(("check-length-differs-from-parse-length".into(), format!("check accepts {} bytes, parse of the same buffer consumes {}", n, m)));
        }
    }
    if let PRes::Ok(f, n) = &p {
        // numbers exact, out-of-range rejected: the independent decoder must agree on frame and length
        match resp_decode(s, 0) {
            Ok((rf, rn)) => {
                if &rf != f || rn != *n {
                    out.push(("number-or-frame-misread".into(), format!("parse gives {:?} ({} bytes), reference gives {:?} ({} bytes)", f, n, rf, rn)));
                }
            }
            Err(RErr::Bad) => out.push(("accepts-what-reference-rejects".into(), format!("parse gives {:?} ({} bytes); reference rejects (out-of-range or malformed number?)", f, n))),
            Err(RErr::Incomplete) => out.push(("accepts-incomplete-input".into(), format!("parse gives {:?} ({} bytes); reference says incomplete", f, n))),
        }
        if check_prefixes && *n == s.len() {
            for k in 0..s.len() {
                if let PRes::Ok(f2, _) = call_parse(&s[..k]) {
                    if &f2 == f {
                        out.push(("strict-prefix-accepted-with-the-same-frame".into(), format!("prefix of {} bytes parses to the same frame", k)));
                    }
                }
            }
        }
    }
    out
}

// ---------------------------------------------------------------------------------------------
// C07 enumerations

pub const ALPHA: &[u8] = b"+-:$*019\r\na\xff";

fn string_at(len: usize, mut idx: u64) -> Vec<u8> {
    let a = ALPHA.len() as u64;
    let mut s = vec![0u8; len];
    for i in (0..len).rev() {
        s[i] = ALPHA[(idx % a) as usize];
        idx /= a;
    }
    s
}

/// Digit strings of the number grid.
fn digit_strings() -> Vec<String> {
    let mut v: Vec<String> = vec![];
    for dc in 1..=21usize {
        v.push("0".repeat(dc));
        v.push(format!("{}1", "0".repeat(dc - 1)));
        v.push("9".repeat(dc));
        v.push(format!("1{}", "0".repeat(dc - 1)));
    }
    let specials: [i128; 12] = [0, 1, 7, 42, i64::MAX as i128 - 1, i64::MAX as i128, i64::MAX as i128 + 1, -(i64::MIN as i128), -(i64::MIN as i128) + 1, 10i128.pow(19), 1i128 << 64, 92233720368547758080];
    for s in specials {
        let t = s.to_string();
        v.push(t.clone());
        for pad in [1usize, 3] {
            if t.len() + pad <= 22 {
                v.push(format!("{}{}", "0".repeat(pad), t));
            }
        }
    }
    v.sort();
    v.dedup();
    v
}

/// Messages of the number grid: (bytes, description).
fn number_grid() -> Vec<(Vec<u8>, String)> {
    let mut out = vec![];
    let digits = digit_strings();
    for sign in ["", "+", "-"] {
        for d in &digits {
            let num = format!("{}{}", sign, d);
            let val: Option<i128> = num.trim_start_matches('+').parse::<i128>().ok();
            // carriers
            let mut carriers: Vec<(Vec<u8>, &str)> = vec![(format!(":{}\r\n", num).into_bytes(), "integer")];
            if let Some(v) = val {
                if (0..=64).contains(&v) {
                    let mut m = format!("${}\r\n", num).into_bytes();
                    m.extend(std::iter::repeat(b'x').take(v as usize));
                    m.extend_from_slice(b"\r\n");
                    carriers.push((m, "bulk-with-payload"));
                    let mut a = format!("*{}\r\n", num).into_bytes();
                    for _ in 0..v {
                        a.extend_from_slice(b":1\r\n");
                    }
                    carriers.push((a, "array-with-elements"));
                } else {
                    carriers.push((format!("${}\r\n", num).into_bytes(), "bulk-length-only"));
                    carriers.push((format!("*{}\r\n", num).into_bytes(), "array-length-only"));
                }
            } else {
                carriers.push((format!("${}\r\n", num).into_bytes(), "bulk-length-only"));
                carriers.push((format!("*{}\r\n", num).into_bytes(), "array-length-only"));
            }
            for (m, what) in carriers {
                out.push((m.clone(), format!("{} {}", what, num)));
                // nested one level inside an array after a filler bulk string of k bytes: moves the
                // digits across every absolute offset up to ~50
                for k in 0..=40usize {
                    let mut n = format!("*2\r\n${}\r\n", k).into_bytes();
                    n.extend(std::iter::repeat(b'f').take(k));
                    n.extend_from_slice(b"\r\n");
                    n.extend_from_slice(&m);
                    out.push((n, format!("{} {} after a {}-byte filler", what, num, k)));
                }
            }
        }
    }
    out
}

/// The well-formed requests of the C06 space (used for truncation points here and by E5).
pub fn request_set() -> Vec<Vec<u8>> {
    use crate::model::cmd;
    vec![
        cmd(&[b"SET", b"a", b"x"]),
        cmd(&[b"SET", b"b", b""]),
        cmd(&[b"SET", b"a", b"a\r\nb\0"]),
        cmd(&[b"GET", b"a"]),
        cmd(&[b"GET", "é".as_bytes()]),
        cmd(&[b"DEL", b"a"]),
        cmd(&[b"DEL", b"a", b"b"]),
        cmd(&[b"DEL", b"a", b"a"]),
        b"+OK\r\n".to_vec(),
        b"-ERR x\r\n".to_vec(),
        b":-12\r\n".to_vec(),
        b"$-1\r\n".to_vec(),
        b"*0\r\n".to_vec(),
        b"*2\r\n*1\r\n:1\r\n$-1\r\n".to_vec(),
    ]
}

fn viol(sh: &mut Shard, prop: &str, class: &str, msg: String, input: &[u8], what: &str) {
    let shown: Vec<u8> = input.iter().cloned().take(200).collect();
    sh.violate(Violation { class: format!("{}:{}", prop, classify(class, input)), msg: format!("{} | input {} ({} bytes) {}", msg, hex_long(&shown), input.len(), what), case: json!({"engine": "resp", "kind": "input", "bytes": shown, "len": input.len(), "what": what}) });
}

/// Root-cause refinement used for known findings (none registered at the moment).
fn classify(class: &str, _input: &[u8]) -> String {
    class.to_string()
}

fn hex_long(b: &[u8]) -> String {
    format!("{:?}", String::from_utf8_lossy(b))
}

fn c07_strings(job: &Job, sh: &mut Shard, t0: Instant) {
    let l = job.tier.pick(6usize, 8usize);
    for len in 0..=l {
        let total = (ALPHA.len() as u64).pow(len as u32);
        let mut idx = job.shard as u64;
        let mut accepted = 0u64;
        while idx < total {
            if idx % 100_000 == job.shard as u64 && t0.elapsed().as_secs() > job.deadline_s {
                sh.capped = true;
                sh.notes.insert(format!("time cap hit at length {} (lengths below are complete)", len));
                return;
            }
            let s = string_at(len, idx);
            sh.evaluations += 1;
            sh.transitions += 3;
            let vs = judge_input(&s, true);
            let c = call_check(&s);
            if let CRes::Ok(_) = c {
                accepted += 1;
                sh.nontrivial.insert(fnv(&s));
            }
            let p = call_parse(&s);
            let sig = format!(
                "check={} parse={}",
                match &c { CRes::Ok(_) => "ok".to_string(), CRes::Incomplete => "incomplete".into(), CRes::Error(e) => e.split('(').next().unwrap_or("").to_string(), CRes::Panic(_) => "PANIC".into() },
                match &p { PRes::Ok(f, _) => format!("ok:{}", match f { RFrame::Simple(_) => "simple", RFrame::Error(_) => "error", RFrame::Integer(_) => "integer", RFrame::Bulk(_) => "bulk", RFrame::Null => "null", RFrame::Array(_) => "array" }), PRes::Incomplete => "incomplete".into(), PRes::Error(e) => e.split('(').next().unwrap_or("").to_string(), PRes::Panic(_) => "PANIC".into() }
            );
            sh.states.insert(fnv(format!("{}|{:?}", sig, match &p { PRes::Ok(f, n) => format!("{:?}{}", f, n), _ => String::new() }).as_bytes()));
            sh.outcome(sig);
            for (class, msg) in vs {
                viol(sh, "C07", &class, msg, &s, "exhaustive string");
            }
            idx += job.nshards as u64;
        }
        sh.count(&format!("strings-len-{}", len), (total + job.nshards as u64 - 1 - job.shard as u64) / job.nshards as u64);
        sh.count("strings-accepted-by-check", accepted);
    }
}

/// Every byte value at every position of a set of well-formed messages: the short strings use 12
/// symbols, this asks what each of the 256 byte values means in the place of a type byte, a sign,
/// a digit, a CR, an LF or a payload byte.
fn c07_substitutions(job: &Job, sh: &mut Shard) {
    let mut base = request_set();
    for m in [&b":0\r\n"[..], b":+7\r\n", b":1234567890\r\n", b"$3\r\nabc\r\n", b"$0\r\n\r\n", b"$10\r\n0123456789\r\n", b"*-1\r\n", b"*1\r\n$1\r\na\r\n", b"*12\r\n", b"*3\r\n:1\r\n+a\r\n-b\r\n"] {
        base.push(m.to_vec());
    }
    let mut i = 0usize;
    for m in &base {
        for pos in 0..m.len() {
            i += 1;
            if i % job.nshards != job.shard {
                continue;
            }
            for b in 0..=255u8 {
                if b == m[pos] {
                    continue;
                }
                let mut x = m.clone();
                x[pos] = b;
                sh.evaluations += 1;
                sh.transitions += 2;
                let v = judge_input(&x, false);
                if v.is_empty() {
                    sh.outcome(format!("subst:{:?}", matches!(call_parse(&x), PRes::Ok(..))));
                }
                for (c, msg) in v {
                    viol(sh, "C07", &c, msg, &x, &format!("byte {:#04x} in place of {:#04x} at offset {} of a well-formed message", b, m[pos], pos));
                }
            }
        }
    }
}

fn c07_numbers(job: &Job, sh: &mut Shard) {
    let grid = number_grid();
    let mut n = 0u64;
    for (i, (m, what)) in grid.iter().enumerate() {
        if i % job.nshards != job.shard {
            continue;
        }
        n += 1;
        sh.evaluations += 1;
        sh.transitions += 3;
        // a declared array length that is large may make parse ask for an absurd allocation and
        // abort: evaluate those messages in a forked child (the death is the observation)
        let risky = what.starts_with("array-length-only");
        if risky {
            let m2 = m.clone();
            let r = in_child(
                move || {
                    let mut v = judge_input(&m2, false);
                    for k in 0..m2.len() {
                        if let CRes::Panic(e) = call_check(&m2[..k]) {
                            v.push(("check-panics".into(), format!("truncation at {}: {}", k, e)));
                        }
                        if let PRes::Panic(e) = call_parse(&m2[..k]) {
                            v.push(("parse-panics".into(), format!("truncation at {}: {}", k, e)));
                        }
                    }
                    serde_json::to_vec(&v).unwrap()
                },
                20_000,
            );
            match r {
                ChildOut::Ok(b) => {
                    let v: Vec<(String, String)> = serde_json::from_slice(&b).unwrap_or_default();
                    for (class, msg) in v {
                        viol(sh, "C07", &class, msg, m, what);
                    }
                }
                ChildOut::Died(how) => viol(sh, "C07", "terminates-the-process[huge-declared-length]", format!("child process died: {}", how), m, what),
                ChildOut::Timeout => viol(sh, "C07", "does-not-terminate", "no result within 20 s".into(), m, what),
            }
            sh.nontrivial.insert(fnv(m));
            continue;
        }
        for (class, msg) in judge_input(m, false) {
            viol(sh, "C07", &class, msg, m, what);
        }
        // every truncation point: never a panic, never the full frame
        let full = call_parse(m);
        for k in 0..m.len() {
            sh.evaluations += 1;
            let pre = &m[..k];
            let c = call_check(pre);
            let p = call_parse(pre);
            if let CRes::Panic(e) = &c {
                viol(sh, "C07", "check-panics", e.clone(), pre, &format!("truncation at {} of {}", k, what));
            }
            if let PRes::Panic(e) = &p {
                viol(sh, "C07", "parse-panics", e.clone(), pre, &format!("truncation at {} of {}", k, what));
            }
            if let (PRes::Ok(f, _), PRes::Ok(ff, nn)) = (&p, &full) {
                if f == ff && *nn == m.len() {
                    viol(sh, "C07", "strict-prefix-accepted-with-the-same-frame", format!("prefix of {} bytes parses to {:?}", k, f), pre, what);
                }
            }
        }
        sh.nontrivial.insert(fnv(m));
        sh.states.insert(fnv(format!("{:?}", full).as_bytes()));
    }
    sh.count("number-grid-messages", n);
    // truncations of the request set
    if job.shard == 0 {
        for m in request_set() {
            for k in 0..=m.len() {
                sh.evaluations += 1;
                for (class, msg) in judge_input(&m[..k], false) {
                    viol(sh, "C07", &class, msg, &m[..k], "truncation of a request");
                }
            }
        }
    }
}

/// Messages whose SIZE matters (the exhaustive strings are short and the number grid small): long
/// lines, long payloads, many elements, nesting right at the limit, every small integer. Generated
/// from a compact spec so that a replay file can rebuild them.
pub fn sized_message(gen: &str, n: usize, fill: u8) -> Vec<u8> {
    match gen {
        "bulk" => {
            let mut m = format!("${}\r\n", n).into_bytes();
            m.extend(std::iter::repeat(fill).take(n));
            m.extend_from_slice(b"\r\n");
            m
        }
        "simple" | "error" => {
            let mut m = vec![if gen == "simple" { b'+' } else { b'-' }];
            m.extend(std::iter::repeat(fill).take(n));
            m.extend_from_slice(b"\r\n");
            m
        }
        "array_ints" => {
            let mut m = format!("*{}\r\n", n).into_bytes();
            for i in 0..n {
                m.extend_from_slice(format!(":{}\r\n", i).as_bytes());
            }
            m
        }
        "array_bulks" => {
            let mut m = format!("*{}\r\n", n).into_bytes();
            for i in 0..n {
                m.extend_from_slice(format!("${}\r\n", i % 7).as_bytes());
                m.extend(std::iter::repeat(fill).take(i % 7));
                m.extend_from_slice(b"\r\n");
            }
            m
        }
        "nest" => {
            let mut m = b"*1\r\n".repeat(n);
            m.extend_from_slice(b":7\r\n");
            m
        }
        "nest_wide" => {
            // n levels, each an array of two elements: an integer and the next level
            let mut m = vec![];
            for _ in 0..n {
                m.extend_from_slice(b"*2\r\n:3\r\n");
            }
            m.extend_from_slice(b"$2\r\nok\r\n");
            m
        }
        "int" => format!(":{}\r\n", n as i64 - 100_000).into_bytes(),
        g if g.starts_with("combo") && g.len() == 9 => {
            // "combo" + carrier + outer size + position + depth: a length / integer carrier as the
            // pos-th of `outer` elements of an enclosing array (the others are ":1"), `depth` such
            // levels; n indexes the table of special numbers, fill selects the sign form
            let gb = g.as_bytes();
            let (carrier, outer, pos, depth) = (gb[5], (gb[6] - b'0') as usize, (gb[7] - b'0') as usize, (gb[8] - b'0') as usize);
            let num = combo_numbers()[n % combo_numbers().len()].clone();
            let num = match fill {
                1 => format!("+{}", num),
                2 => format!("0{}", num),
                _ => num,
            };
            let mut m = vec![];
            for _ in 0..depth {
                m.extend_from_slice(format!("*{}\r\n", outer).as_bytes());
                for _ in 0..pos {
                    m.extend_from_slice(b":1\r\n");
                }
            }
            m.push(carrier);
            m.extend_from_slice(num.as_bytes());
            m.extend_from_slice(b"\r\n");
            m
        }
        g if g.starts_with("nt") && g.len() == 5 => {
            // a number line of n digits ended by an arbitrary byte (then CR LF): carrier, sign, nesting
            let gb = g.as_bytes();
            let mut m = vec![];
            if gb[4] == b'N' {
                m.extend_from_slice(b"*2\r\n$3\r\nabc\r\n");
            }
            m.push(gb[2]);
            if gb[3] != b'n' {
                m.push(gb[3]);
            }
            m.extend((0..n).map(|i| b"1234567890"[i % 10]));
            m.push(fill);
            m.extend_from_slice(b"\r\n");
            m
        }
        "set_value" => {
            let mut m = b"*3\r\n$3\r\nSET\r\n$1\r\nk\r\n".to_vec();
            m.extend_from_slice(&sized_message("bulk", n, fill));
            m
        }
        "set_key" => {
            let mut m = b"*3\r\n$3\r\nSET\r\n".to_vec();
            m.extend_from_slice(&sized_message("bulk", n, fill));
            m.extend_from_slice(b"$1\r\nv\r\n");
            m
        }
        _ => vec![],
    }
}

pub fn combo_numbers() -> Vec<String> {
    let mut v: Vec<String> = vec![];
    for x in [i64::MAX as i128, i64::MAX as i128 - 1, i64::MAX as i128 - 2, i64::MAX as i128 - 5, i64::MAX as i128 + 1, (i64::MAX / 2) as i128, (i64::MAX / 2) as i128 + 1, u32::MAX as i128, u32::MAX as i128 + 1, u32::MAX as i128 + 2, i32::MAX as i128, i32::MAX as i128 + 1, 65_535, 65_536, 65_537, 255, 256, 2, 1, 0, -1, -2, i64::MIN as i128, i64::MIN as i128 + 1, u64::MAX as i128, 1i128 << 64] {
        v.push(x.to_string());
    }
    v
}

fn sized_specs(tier: Tier) -> Vec<(&'static str, usize, u8)> {
    let mut v = vec![];
    let lens: Vec<usize> = vec![0, 1, 2, 3, 9, 10, 11, 99, 100, 101, 127, 128, 250, 251, 252, 253, 254, 255, 256, 257, 999, 1000, 1001, 1023, 1024, 1025, 4095, 4096, 4097, 8180, 8181, 8182, 8183, 8184, 8185, 8186, 8187, 8188, 8189, 8190, 8191, 8192, 8193, 8194, 9999, 10_000, 10_001, 16_383, 16_384, 16_385, 65_534, 65_535, 65_536, 65_537, 99_999, 100_000, 100_001, 1 << 20];
    for gen in ["bulk", "simple", "error", "set_value", "set_key"] {
        for &n in &lens {
            for fill in [b'a', 0x80u8, 0xff, b'0', b'\n', b'\r'] {
                // a lone CR / LF inside a line is a different frame for simple strings: keep them to bulk payloads
                if (fill == b'\n' || fill == b'\r') && !matches!(gen, "bulk" | "set_value" | "set_key") {
                    continue;
                }
                if n > 100_001 && fill != b'a' {
                    continue;
                }
                v.push((gen, n, fill));
            }
        }
    }
    for gen in ["array_ints", "array_bulks"] {
        for n in [0usize, 1, 2, 9, 10, 11, 99, 100, 101, 255, 256, 257, 999, 1000, 1001, 4096, 65_535, 65_536, 65_537] {
            if n > 5000 && tier == Tier::Quick && gen == "array_bulks" {
                continue;
            }
            v.push((gen, n, b'e'));
        }
    }
    for n in 0..=40usize {
        v.push(("nest", n, 0));
        v.push(("nest_wide", n, 0));
    }
    // COMBINATIONS: a special length / integer as the first, a middle or the last element of an
    // enclosing array of 2 or 3 elements, one and two levels deep (the frames still owed by the
    // enclosing arrays are state of the completeness check)
    {
        const COMBOS: [&str; 45] = [
            "combo*201", "combo*211", "combo*301", "combo*311", "combo*321", "combo*202", "combo*212", "combo*302", "combo*312", "combo*322", "combo*203", "combo*213", "combo*303", "combo*313", "combo*323",
            "combo$201", "combo$211", "combo$301", "combo$311", "combo$321", "combo$202", "combo$212", "combo$302", "combo$312", "combo$322", "combo$203", "combo$213", "combo$303", "combo$313", "combo$323",
            "combo:201", "combo:211", "combo:301", "combo:311", "combo:321", "combo:202", "combo:212", "combo:302", "combo:312", "combo:322", "combo:203", "combo:213", "combo:303", "combo:313", "combo:323",
        ];
        for g in COMBOS {
            for n in 0..combo_numbers().len() {
                for sign in [0u8, 1, 2] {
                    v.push((g, n, sign));
                }
            }
        }
    }
    // number lines of every length ended by every kind of byte (the error paths of the number reader)
    for g in ["nt:nT", "nt:-T", "nt:+T", "nt$nT", "nt$-T", "nt$+T", "nt*nT", "nt*-T", "nt*+T", "nt:nN", "nt:-N", "nt$nN", "nt*nN"] {
        let mut ns: Vec<usize> = (0..=70).collect();
        ns.extend([99, 100, 127, 128, 255, 256, 1000, 4096, 8190, 8191, 8192, 8193, 65_536]);
        for n in ns {
            for term in [b'x', b' ', 0u8, b'\n', b'\r', b'-', b'.', 0x7f, 0x80, 0xbf, 0xc3, 0xe2, 0xf0, 0xff] {
                if n > 300 && !matches!(term, b'x' | 0xff | b'\r') {
                    continue;
                }
                v.push((g, n, term));
            }
        }
    }
    // every integer in [-100 000, 100 000] (quick: [-3000, 3000])
    let r = tier.pick(3000usize, 100_000usize);
    for n in (100_000 - r)..=(100_000 + r) {
        v.push(("int", n, 0));
    }
    v
}

fn c07_sized(job: &Job, sh: &mut Shard) {
    let specs = sized_specs(job.tier);
    let mut n = 0u64;
    for (i, (gen, len, fill)) in specs.iter().enumerate() {
        if i % job.nshards != job.shard {
            continue;
        }
        n += 1;
        let m = sized_message(gen, *len, *fill);
        let what = format!("sized message {}({}, fill {:#04x})", gen, len, fill);
        let report = |sh: &mut Shard, class: &str, msg: String, trunc: Option<usize>| {
            let shown: Vec<u8> = m.iter().cloned().take(60).collect();
            sh.violate(Violation { class: format!("C07:{}", class), msg: format!("{} | {} ({} bytes, starts {}){}", msg, what, m.len(), hex_long(&shown), trunc.map(|k| format!(" truncated to {} bytes", k)).unwrap_or_default()), case: json!({"engine": "resp", "kind": "sized", "gen": gen, "n": len, "fill": fill, "truncate_to": trunc}) });
        };
        sh.evaluations += 1;
        sh.transitions += 3;
        for (class, msg) in judge_input(&m, false) {
            report(sh, &class, msg, None);
        }
        // followed by the start of another frame in the same buffer (as the connection sees it)
        let mut m2 = m.clone();
        m2.extend_from_slice(b":5\r\n+x");
        for (class, msg) in judge_input(&m2, false) {
            report(sh, &class, format!("{} [followed by \":5\\r\\n+x\" in the same buffer]", msg), None);
        }
        // truncation points: all for short messages, else the first / last 24 and the ones around the
        // 8 KiB and 64 KiB marks
        let full = call_parse(&m);
        let ks: Vec<usize> = if m.len() <= 600 { (0..m.len()).collect() } else { (0..24).chain(8180..8200).chain(65_530..65_545).chain(m.len() - 24..m.len()).filter(|k| *k < m.len()).collect() };
        for k in ks {
            sh.evaluations += 1;
            let pre = &m[..k];
            let c = call_check(pre);
            let p = call_parse(pre);
            if let CRes::Panic(e) = &c {
                report(sh, "check-panics", e.clone(), Some(k));
            }
            if let PRes::Panic(e) = &p {
                report(sh, "parse-panics", e.clone(), Some(k));
            }
            if let CRes::Ok(nn) = &c {
                // a strict prefix of a single frame can not be a complete frame of the same kind
                if let (PRes::Ok(f, _), PRes::Ok(ff, fl)) = (&call_parse(&pre[..(*nn).min(pre.len())]), &full) {
                    if f == ff && *fl == m.len() {
                        report(sh, "strict-prefix-accepted-with-the-same-frame", format!("prefix of {} bytes parses to the whole frame", k), Some(k));
                    }
                }
            }
            for (class, msg) in judge_input(pre, false) {
                report(sh, &class, msg, Some(k));
            }
        }
        sh.nontrivial.insert(fnv(format!("{}{}{}", gen, len, fill).as_bytes()));
        sh.states.insert(fnv(format!("{}|{:?}", gen, match &full { PRes::Ok(_, n) => format!("ok{}", n), PRes::Incomplete => "inc".into(), PRes::Error(e) => e.clone(), PRes::Panic(_) => "panic".into() }).as_bytes()));
        sh.outcome(format!("sized:{}:{}", gen, match &full { PRes::Ok(..) => "ok", PRes::Incomplete => "incomplete", PRes::Error(_) => "error", PRes::Panic(_) => "PANIC" }));
    }
    sh.count("sized-messages", n);
}

/// Deep nesting and huge declared lengths: each in a forked child, on the main stack (8 MiB) and on
/// a 2 MiB thread (tokio's worker stack size); the child's death is the observation.
fn c07_deep(job: &Job, sh: &mut Shard) {
    let mut cases: Vec<(Vec<u8>, String)> = vec![];
    for d in [1usize, 2, 8, 64, 1000, 10_000, 100_000, 1_000_000] {
        let mut m = b"*1\r\n".repeat(d);
        cases.push((m.clone(), format!("{} nested '*1' with no element", d)));
        m.extend_from_slice(b":1\r\n");
        cases.push((m, format!("{} nested '*1' around ':1'", d)));
    }
    for l in ["1000000000000", "9223372036854775807", "4294967296", "2147483648", "18446744073709551615", "1152921504606846976"] {
        cases.push((format!("*{}\r\n", l).into_bytes(), format!("array of declared length {} with no element", l)));
        cases.push((format!("*{}\r\n:1\r\n", l).into_bytes(), format!("array of declared length {} with one element", l)));
        cases.push((format!("${}\r\n", l).into_bytes(), format!("bulk string of declared length {} with no payload", l)));
        cases.push((format!("${}\r\nab\r\n", l).into_bytes(), format!("bulk string of declared length {} with 2 bytes", l)));
        cases.push((format!("*2\r\n${}\r\n", l).into_bytes(), format!("array whose first element declares length {}", l)));
    }
    for (i, (m, what)) in cases.iter().enumerate() {
        if i % job.nshards != job.shard {
            continue;
        }
        for (stack, sname) in [(0usize, "main stack (8 MiB)"), (2 * 1024 * 1024, "2 MiB thread stack (tokio worker)")] {
            for mode in ["check", "parse", "check-then-parse"] {
                sh.evaluations += 1;
                sh.transitions += 1;
                let m2 = m.clone();
                let mode2 = mode.to_string();
                let r = in_child(
                    move || {
                        let body = move || -> Vec<u8> {
                            let r = match mode2.as_str() {
                                "check" => format!("{:?}", call_check(&m2)),
                                "parse" => {
                                    let r = call_parse(&m2);
                                    match r {
                                        PRes::Ok(_, n) => format!("Ok({})", n),
                                        o => format!("{:?}", o),
                                    }
                                }
                                _ => match call_check(&m2) {
                                    CRes::Ok(n) => match call_parse(&m2[..n]) {
                                        PRes::Ok(_, n) => format!("Ok({})", n),
                                        o => format!("{:?}", o),
                                    },
                                    o => format!("{:?}", o),
                                },
                            };
                            r.into_bytes()
                        };
                        if stack == 0 {
                            body()
                        } else {
                            std::thread::Builder::new().stack_size(stack).spawn(body).unwrap().join().unwrap_or_else(|_| b"Panic(thread)".to_vec())
                        }
                    },
                    30_000,
                );
                let (class, msg) = match r {
                    ChildOut::Ok(b) => {
                        let s = String::from_utf8_lossy(&b).to_string();
                        sh.outcome(format!("{}:{}", mode, s.split('(').next().unwrap_or("")));
                        sh.states.insert(fnv(format!("{}{}", mode, s).as_bytes()));
                        if s.starts_with("Panic") {
                            (Some("panics-on-structured-input"), s)
                        } else {
                            (None, s)
                        }
                    }
                    ChildOut::Died(how) => {
                        sh.outcome(format!("{}:process-died", mode));
                        (Some("terminates-the-process"), format!("child process died: {}", how))
                    }
                    ChildOut::Timeout => (Some("does-not-terminate"), "no result within 30 s".to_string()),
                };
                sh.nontrivial.insert(fnv(format!("{}{}{}", what, sname, mode).as_bytes()));
                if let Some(c) = class {
                    let root = if what.contains("nested") { "deep-nesting" } else { "huge-declared-length" };
                    sh.violate(Violation { class: format!("C07:{}[{}]", c, root), msg: format!("{} | {} of {} on the {}", msg, mode, what, sname), case: json!({"engine": "resp", "kind": "deep", "what": what, "mode": mode, "stack": stack, "len": m.len()}) });
                }
            }
        }
    }
}

// ---------------------------------------------------------------------------------------------
// C08: Connection over a scripted stream

#[derive(Clone, Debug, PartialEq, Eq)]
pub enum SEv {
    Data(Vec<u8>),
    Pending,
    Eof,
    /// the transport reports an error instead of data (a reset by the peer, a timeout, ...)
    IoErr(std::io::ErrorKind),
}

#[derive(Default)]
pub struct SState {
    pub script: VecDeque<SEv>,
    pub written: Vec<u8>,
    /// the script ran dry: the stream stays pending for ever
    pub starved: bool,
    /// write side: how many bytes each successive poll_write call accepts (0 = Pending once);
    /// when the list is used up, `write_cap_rest` applies to every further call (0 = unlimited)
    pub write_caps: VecDeque<usize>,
    pub write_cap_rest: usize,
    pub write_calls: usize,
}

#[derive(Clone)]
pub struct ScriptStream(pub Rc<RefCell<SState>>);

impl AsyncRead for ScriptStream {
    fn poll_read(self: Pin<&mut Self>, _cx: &mut Context<'_>, buf: &mut ReadBuf<'_>) -> Poll<std::io::Result<()>> {
        let mut st = self.0.borrow_mut();
        match st.script.pop_front() {
            None => {
                st.starved = true;
                Poll::Pending
            }
            Some(SEv::Pending) => Poll::Pending,
            Some(SEv::Eof) => {
                st.script.push_front(SEv::Eof);
                Poll::Ready(Ok(()))
            }
            Some(SEv::IoErr(k)) => Poll::Ready(Err(std::io::Error::new(k, "scripted error"))),
            Some(SEv::Data(d)) => {
                let n = d.len().min(buf.remaining());
                buf.put_slice(&d[..n]);
                if n < d.len() {
                    st.script.push_front(SEv::Data(d[n..].to_vec()));
                }
                Poll::Ready(Ok(()))
            }
        }
    }
}
impl AsyncWrite for ScriptStream {
    fn poll_write(self: Pin<&mut Self>, _cx: &mut Context<'_>, buf: &[u8]) -> Poll<std::io::Result<usize>> {
        let mut st = self.0.borrow_mut();
        st.write_calls += 1;
        let cap = match st.write_caps.pop_front() {
            Some(0) => return Poll::Pending,
            Some(c) => c,
            None if st.write_cap_rest > 0 => st.write_cap_rest,
            None => usize::MAX,
        };
        let n = buf.len().min(cap);
        st.written.extend_from_slice(&buf[..n]);
        Poll::Ready(Ok(n))
    }
    fn poll_flush(self: Pin<&mut Self>, _cx: &mut Context<'_>) -> Poll<std::io::Result<()>> {
        Poll::Ready(Ok(()))
    }
    fn poll_shutdown(self: Pin<&mut Self>, _cx: &mut Context<'_>) -> Poll<std::io::Result<()>> {
        Poll::Ready(Ok(()))
    }
}

fn noop_waker() -> Waker {
    fn clone(_: *const ()) -> RawWaker {
        RawWaker::new(std::ptr::null(), &VT)
    }
    fn noop(_: *const ()) {}
    static VT: RawWakerVTable = RawWakerVTable::new(clone, noop, noop, noop);
    unsafe { Waker::from_raw(RawWaker::new(std::ptr::null(), &VT)) }
}

/// Poll `f` until it is ready, or until the scripted stream has run dry (= pending for ever).
fn drive<T>(st: &Rc<RefCell<SState>>, mut f: Pin<&mut dyn Future<Output = T>>) -> Option<T> {
    let w = noop_waker();
    let mut cx = Context::from_waker(&w);
    for _ in 0..1_000_000 {
        match f.as_mut().poll(&mut cx) {
            Poll::Ready(v) => return Some(v),
            Poll::Pending => {
                if st.borrow().starved {
                    return None;
                }
            }
        }
    }
    panic!("scripted future did not finish")
}

#[derive(Clone, Debug, PartialEq, Eq)]
pub enum ReadEnd {
    /// `read_frame` returned `Ok(None)`: clean end of stream
    CleanEof,
    /// `read_frame` returned an error
    Error(String),
    /// the stream ran dry while `read_frame` was waiting: incomplete
    Pending,
    Panic(String),
}

/// Feed `script` to a real `Connection` and read frames until the stream ends / errs / runs dry.
pub fn read_all(mut script: Vec<SEv>) -> (Vec<RFrame>, ReadEnd) {
    // a zero-byte answer means end of stream to AsyncRead: an empty segment is no segment
    script.retain(|e| !matches!(e, SEv::Data(d) if d.is_empty()));
    let r = std::panic::catch_unwind(std::panic::AssertUnwindSafe(|| {
        let st = Rc::new(RefCell::new(SState { script: script.into(), ..Default::default() }));
        let mut conn = Connection::new(ScriptStream(st.clone()));
        let mut frames = vec![];
        loop {
            let mut fut = Box::pin(conn.read_frame());
            let r = drive(&st, fut.as_mut());
            drop(fut);
            match r {
                None => return (frames, ReadEnd::Pending),
                Some(Ok(Some(f))) => frames.push(to_r(&f)),
                Some(Ok(None)) => return (frames, ReadEnd::CleanEof),
                Some(Err(e)) => return (frames, ReadEnd::Error(e.to_string())),
            }
            if frames.len() > 300_000 {
                return (frames, ReadEnd::Error("too many frames".into()));
            }
        }
    }));
    match r {
        Ok(x) => x,
        Err(e) => (vec![], ReadEnd::Panic(pmsg(e))),
    }
}

/// Encode frames with the real `write_frame`.
pub fn write_all(frames: &[RFrame]) -> Result<Vec<u8>, String> {
    write_all_with(frames, &[], 0)
}

/// The same over a transport that accepts only `caps[i]` bytes in its i-th write call (0 = not
/// ready once) and `rest` bytes in every later one (0 = everything).
pub fn write_all_with(frames: &[RFrame], caps: &[usize], rest: usize) -> Result<Vec<u8>, String> {
    std::panic::catch_unwind(std::panic::AssertUnwindSafe(|| {
        let st = Rc::new(RefCell::new(SState { write_caps: caps.iter().cloned().collect(), write_cap_rest: rest, ..Default::default() }));
        let mut conn = Connection::new(ScriptStream(st.clone()));
        for f in frames {
            let fr = from_r(f);
            let mut fut = Box::pin(conn.write_frame(&fr));
            match drive(&st, fut.as_mut()) {
                Some(Ok(())) => {}
                Some(Err(e)) => return Err(format!("write_frame error: {}", e)),
                None => return Err("write_frame pending for ever".into()),
            }
        }
        let w = st.borrow().written.clone();
        Ok(w)
    }))
    .unwrap_or_else(|e| Err(format!("PANIC in write_frame: {}", pmsg(e))))
}

fn frame_universe(tier: Tier) -> Vec<RFrame> {
    let mut v = vec![];
    for s in ["", "OK", "a b", "\x7f", "é"] {
        v.push(RFrame::Simple(s.as_bytes().to_vec()));
        v.push(RFrame::Error(s.as_bytes().to_vec()));
    }
    for i in [0i64, 1, -1, 10, -10, 9, 99, i64::MAX, i64::MIN, i64::MIN + 1, 100_000_000_000_000_000, 1_000_000_000_000_000_000, -1_000_000_000_000_000_000, 123456789012345678] {
        v.push(RFrame::Integer(i));
    }
    let bulks: Vec<Vec<u8>> = vec![vec![], b"x".to_vec(), b"\r\n".to_vec(), b"\r".to_vec(), b"\n".to_vec(), b"a\r\nb".to_vec(), vec![0, 0xff], vec![b'y'; 20], vec![b'z'; 8192], vec![b'w'; 8193], b"$5\r\n".to_vec(), b"*1\r\n:".to_vec()];
    for b in bulks {
        v.push(RFrame::Bulk(b));
    }
    v.push(RFrame::Null);
    // arrays of non-array elements
    // incl. the shortest possible elements (empty simple string / error: 3 bytes each)
    let elems = vec![RFrame::Simple(b"OK".to_vec()), RFrame::Integer(-1), RFrame::Bulk(b"x".to_vec()), RFrame::Bulk(b"\r\n".to_vec()), RFrame::Null, RFrame::Error(b"E".to_vec()), RFrame::Bulk(vec![]), RFrame::Simple(vec![]), RFrame::Error(vec![])];
    v.push(RFrame::Array(vec![]));
    let maxlen = tier.pick(3, 4);
    let mut cur: Vec<Vec<RFrame>> = vec![vec![]];
    for _ in 0..maxlen {
        let mut next = vec![];
        for a in &cur {
            for e in &elems {
                let mut a2 = a.clone();
                a2.push(e.clone());
                next.push(a2);
            }
        }
        for a in &next {
            v.push(RFrame::Array(a.clone()));
        }
        cur = next;
    }
    v
}

fn sequences(tier: Tier) -> Vec<Vec<RFrame>> {
    let uni = frame_universe(tier);
    let mut seqs: Vec<Vec<RFrame>> = uni.iter().map(|f| vec![f.clone()]).collect();
    // sequences of 2 (and 3) frames from a reduced set
    let small = vec![RFrame::Simple(b"OK".to_vec()), RFrame::Integer(-12), RFrame::Bulk(b"\r\n".to_vec()), RFrame::Null, RFrame::Array(vec![RFrame::Bulk(b"GET".to_vec()), RFrame::Bulk(b"k".to_vec())]), RFrame::Bulk(vec![]), RFrame::Error(b"".to_vec())];
    for a in &small {
        for b in &small {
            seqs.push(vec![a.clone(), b.clone()]);
            for c in &small {
                seqs.push(vec![a.clone(), b.clone(), c.clone()]);
                if tier == Tier::Thorough {
                    for d in &small {
                        seqs.push(vec![a.clone(), b.clone(), c.clone(), d.clone()]);
                    }
                }
            }
        }
    }
    // frames larger than the connection's initial 8 KiB buffer in the company of other frames (the
    // encoded lengths 8192 / 8193 straddle the capacity): before, after and between small frames
    let bigs: Vec<RFrame> = [8183usize, 8184, 8192, 8193, 20_000].iter().map(|n| RFrame::Bulk(vec![b'q'; *n])).collect();
    let mates = vec![RFrame::Simple(b"OK".to_vec()), RFrame::Integer(-12), RFrame::Null, RFrame::Bulk(b"\r\n".to_vec()), RFrame::Array(vec![RFrame::Bulk(b"GET".to_vec()), RFrame::Bulk(b"k".to_vec())])];
    for big in &bigs {
        for m in &mates {
            seqs.push(vec![big.clone(), m.clone()]);
            seqs.push(vec![m.clone(), big.clone()]);
            seqs.push(vec![m.clone(), big.clone(), m.clone()]);
            seqs.push(vec![big.clone(), m.clone(), m.clone()]);
        }
        seqs.push(vec![big.clone(), big.clone()]);
        seqs.push(vec![RFrame::Array(vec![RFrame::Bulk(b"SET".to_vec()), RFrame::Bulk(b"k".to_vec()), big.clone()]), RFrame::Array(vec![RFrame::Bulk(b"GET".to_vec()), RFrame::Bulk(b"k".to_vec())])]);
    }
    seqs
}

fn cut_sets(n: usize, tier: Tier) -> Vec<Vec<usize>> {
    // positions 1..n-1 are possible cuts
    let mut out = vec![];
    let exhaustive_limit = tier.pick(14, 17);
    if n <= 1 {
        return vec![vec![]];
    }
    if n <= exhaustive_limit {
        for mask in 0u32..(1u32 << (n - 1)) {
            out.push((1..n).filter(|i| mask & (1 << (i - 1)) != 0).collect());
        }
    } else {
        out.push(vec![]);
        out.push((1..n).collect());
        let mut pos: Vec<usize> = if n <= 80 { (1..n).collect() } else { (1..40).chain((n / 2 - 3)..(n / 2 + 3)).chain((n - 40)..n).collect() };
        if n > 8200 {
            // around the initial buffer capacity
            pos.extend((8185..8200).filter(|c| *c < n));
            pos.sort_unstable();
            pos.dedup();
        }
        for &a in &pos {
            out.push(vec![a]);
        }
        let pos2: Vec<usize> = if n <= 40 { (1..n).collect() } else { (1..14).chain((n - 14)..n).collect() };
        for (i, &a) in pos2.iter().enumerate() {
            for &b in &pos2[i + 1..] {
                out.push(vec![a, b]);
            }
        }
    }
    out
}

fn segments(bytes: &[u8], cuts: &[usize]) -> Vec<Vec<u8>> {
    let mut v = vec![];
    let mut last = 0;
    for &c in cuts {
        v.push(bytes[last..c].to_vec());
        last = c;
    }
    v.push(bytes[last..].to_vec());
    v
}

fn c08(job: &Job, sh: &mut Shard, t0: Instant) {
    let seqs = sequences(job.tier);
    let mut viol8 = |sh: &mut Shard, class: &str, msg: String, frames: &[RFrame], extra: Value| {
        sh.violate(Violation { class: format!("C08:{}", class), msg: format!("{} | frames {}", msg, show_frames(frames)), case: json!({"engine": "resp", "kind": "roundtrip", "frames": frames.iter().map(frame_json).collect::<Vec<_>>(), "at": extra}) });
    };
    for (i, frames) in seqs.iter().enumerate() {
        if i % job.nshards != job.shard {
            continue;
        }
        if t0.elapsed().as_secs() > job.deadline_s {
            sh.capped = true;
            sh.notes.insert(format!("time cap hit after {} of {} frame sequences", i, seqs.len()));
            break;
        }
        sh.nontrivial.insert(fnv(format!("{:?}", frames).as_bytes()));
        // encoding by the real writer equals the reference encoding
        let enc = match write_all(frames) {
            Ok(e) => e,
            Err(m) => {
                viol8(sh, if m.contains("PANIC") { "write-panics" } else { "write-fails" }, m, frames, json!(null));
                continue;
            }
        };
        let mut want = vec![];
        for f in frames {
            resp_encode(f, &mut want);
        }
        sh.evaluations += 1;
        sh.transitions += frames.len() as u64;
        if enc != want {
            viol8(sh, "encoding-differs-from-reference", format!("wrote {:?}, reference {:?}", String::from_utf8_lossy(&enc[..enc.len().min(80)]), String::from_utf8_lossy(&want[..want.len().min(80)])), frames, json!(null));
            continue;
        }
        // the same frames over a transport that takes less than it is offered (short writes and
        // not-ready answers are the write-side counterpart of segmentation): same bytes
        for (caps, rest) in &write_scripts() {
            sh.evaluations += 1;
            match write_all_with(frames, caps, *rest) {
                Ok(e2) if e2 == want => {}
                Ok(e2) => {
                    let d = e2.iter().zip(want.iter()).position(|(a, b)| a != b).unwrap_or(e2.len().min(want.len()));
                    viol8(sh, "encoding-depends-on-how-much-the-transport-accepts", format!("transport accepting {:?} then {} bytes per write call: {} bytes written, reference {} bytes, first difference at byte {}", caps, if *rest == 0 { "all".to_string() } else { rest.to_string() }, e2.len(), want.len(), d), frames, json!({"write_caps": caps, "write_cap_rest": rest}));
                    break;
                }
                Err(m) => {
                    viol8(sh, if m.contains("PANIC") { "write-panics" } else { "write-fails" }, format!("{} (transport accepting {:?} then {} bytes per call)", m, caps, rest), frames, json!({"write_caps": caps, "write_cap_rest": rest}));
                    break;
                }
            }
        }
        let n = enc.len();
        // every segmentation, then EOF: the frames, then a clean end
        for cuts in cut_sets(n, job.tier) {
            let mut script: Vec<SEv> = segments(&enc, &cuts).into_iter().map(SEv::Data).collect();
            script.push(SEv::Eof);
            sh.evaluations += 1;
            sh.transitions += script.len() as u64;
            let (got, end) = read_all(script);
            // delivery states: (frame sequence, bytes delivered so far)
            for c in &cuts {
                sh.states.insert(fnv(format!("{}|{}", i, c).as_bytes()));
            }
            sh.outcome(format!("{} frames then {:?}", got.len(), end));
            if &got != frames || end != ReadEnd::CleanEof {
                let class = match &end {
                    ReadEnd::Panic(_) => "read-panics",
                    _ if &got != frames => "decoded-frames-differ",
                    _ => "full-stream-not-a-clean-end",
                };
                viol8(sh, class, format!("cuts {:?}: decoded {} then {:?}", cuts, show_frames(&got), end), frames, json!({"cuts": cuts}));
                break;
            }
        }
        // Pending insertions (<= 2) between the segments of a few segmentations
        let few: Vec<Vec<usize>> = if n > 2 { vec![vec![], vec![1], vec![n / 2], vec![1, n - 1], (1..n.min(12)).collect()] } else { vec![vec![]] };
        for cuts in few {
            let segs = segments(&enc, &cuts);
            let slots = segs.len() + 1;
            for a in 0..slots {
                for b2 in a..slots {
                    let mut script = vec![];
                    for (j, s) in segs.iter().enumerate() {
                        if j == a {
                            script.push(SEv::Pending);
                        }
                        if j == b2 {
                            script.push(SEv::Pending);
                        }
                        script.push(SEv::Data(s.clone()));
                    }
                    if a == segs.len() {
                        script.push(SEv::Pending);
                    }
                    if b2 == segs.len() {
                        script.push(SEv::Pending);
                    }
                    script.push(SEv::Eof);
                    sh.evaluations += 1;
                    let (got, end) = read_all(script);
                    if &got != frames || end != ReadEnd::CleanEof {
                        viol8(sh, if matches!(end, ReadEnd::Panic(_)) { "read-panics" } else { "pending-changes-the-result" }, format!("cuts {:?} pending before segments {} and {}: decoded {} then {:?}", cuts, a, b2, show_frames(&got), end), frames, json!({"cuts": cuts, "pending": [a, b2]}));
                    }
                }
            }
        }
        // every strict prefix: (i) then pending for ever = incomplete, (ii) then EOF = error unless at a frame boundary
        let mut boundaries = vec![0usize];
        {
            let mut p = 0;
            for f in frames {
                let mut e = vec![];
                resp_encode(f, &mut e);
                p += e.len();
                boundaries.push(p);
            }
        }
        let prefix_points: Vec<usize> = if n <= 200 { (0..n).collect() } else { (0..60).chain((n - 60)..n).collect() };
        for k in prefix_points {
            let complete: Vec<RFrame> = boundaries.iter().zip(frames.iter()).filter(|(b, _)| **b < k || (**b == 0 && k > 0)).zip(boundaries.iter().skip(1)).filter(|(_, e)| **e <= k).map(|((_, f), _)| f.clone()).collect();
            let at_boundary = boundaries.contains(&k);
            for whole in [true, false] {
                let data: Vec<SEv> = if whole { vec![SEv::Data(enc[..k].to_vec())] } else { enc[..k].iter().map(|b| SEv::Data(vec![*b])).collect() };
                // (i) pending for ever
                sh.evaluations += 1;
                let (got, end) = read_all(data.clone());
                sh.outcome(format!("prefix: {} frames then {:?}", got.len(), match &end { ReadEnd::Error(_) => ReadEnd::Error(String::new()), o => o.clone() }));
                if got != complete || end != ReadEnd::Pending {
                    let class = match &end {
                        ReadEnd::Panic(_) => "strict-prefix-panics",
                        ReadEnd::Error(_) => "strict-prefix-reported-as-error",
                        ReadEnd::CleanEof => "strict-prefix-reported-as-clean-end",
                        ReadEnd::Pending => "strict-prefix-yields-wrong-frames",
                    };
                    viol8(sh, class, format!("prefix of {} bytes ({}) then silence: decoded {} then {:?}; expected {} then incomplete", k, if whole { "whole" } else { "byte-wise" }, show_frames(&got), end, show_frames(&complete)), frames, json!({"prefix": k, "whole": whole, "then": "pending"}));
                }
                // (ii) EOF
                sh.evaluations += 1;
                let mut s2 = data;
                s2.push(SEv::Eof);
                let (got, end) = read_all(s2);
                let ok = got == complete && if at_boundary { end == ReadEnd::CleanEof } else { matches!(end, ReadEnd::Error(_)) };
                if !ok {
                    let class = match &end {
                        ReadEnd::Panic(_) => "strict-prefix-panics",
                        ReadEnd::CleanEof if !at_boundary => "stream-ending-inside-a-frame-reported-as-clean-end",
                        ReadEnd::Error(_) if at_boundary => "clean-end-reported-as-error",
                        _ => "strict-prefix-yields-wrong-frames",
                    };
                    viol8(sh, class, format!("prefix of {} bytes then EOF: decoded {} then {:?}", k, show_frames(&got), end), frames, json!({"prefix": k, "whole": whole, "then": "eof"}));
                }
                // (iii) the transport fails (the peer resets the connection, ...): inside a frame that
                // is an error as well, never a clean end; between frames either answer is accepted
                if whole {
                    use std::io::ErrorKind as K;
                    for kind in [K::ConnectionReset, K::ConnectionAborted, K::BrokenPipe, K::TimedOut, K::UnexpectedEof, K::Other] {
                        sh.evaluations += 1;
                        let mut s3: Vec<SEv> = vec![SEv::Data(enc[..k].to_vec())];
                        s3.push(SEv::IoErr(kind));
                        s3.push(SEv::Eof);
                        let (got, end) = read_all(s3);
                        let ok = got == complete && match &end {
                            ReadEnd::Error(_) => true,
                            ReadEnd::CleanEof => at_boundary,
                            _ => false,
                        };
                        sh.outcome(format!("prefix then transport error: {}", match &end { ReadEnd::Error(_) => "error", ReadEnd::CleanEof => "clean end", ReadEnd::Pending => "pending", ReadEnd::Panic(_) => "panic" }));
                        if !ok {
                            let class = match &end {
                                ReadEnd::Panic(_) => "strict-prefix-panics",
                                ReadEnd::CleanEof => "stream-ending-inside-a-frame-reported-as-clean-end",
                                _ => "strict-prefix-yields-wrong-frames",
                            };
                            viol8(sh, class, format!("prefix of {} bytes, then the transport reports {:?}: decoded {} then {:?}", k, kind, show_frames(&got), end), frames, json!({"prefix": k, "whole": whole, "then": format!("{:?}", kind)}));
                        }
                    }
                }
            }
        }
        if sh.samples.len() < 2 {
            sh.samples.push(json!({"frames": show_frames(frames), "encoding_len": n}));
        }
    }
}

fn show_frames(f: &[RFrame]) -> String {
    let s = format!("{:?}", f);
    if s.len() > 300 {
        format!("{}… ({} chars)", &s[..300], s.len())
    } else {
        s
    }
}
fn frame_json(f: &RFrame) -> Value {
    match f {
        RFrame::Simple(s) => json!({"simple": s}),
        RFrame::Error(s) => json!({"error": s}),
        RFrame::Integer(i) => json!({"integer": i}),
        RFrame::Bulk(b) => json!({"bulk": b}),
        RFrame::Null => json!("null"),
        RFrame::Array(a) => json!({"array": a.iter().map(frame_json).collect::<Vec<_>>()}),
    }
}
fn frame_from_json(v: &Value) -> Option<RFrame> {
    let bytes = |x: &Value| -> Option<Vec<u8>> { x.as_array().map(|a| a.iter().map(|b| b.as_u64().unwrap_or(0) as u8).collect()) };
    if v == "null" {
        return Some(RFrame::Null);
    }
    if let Some(x) = v.get("simple") {
        return Some(RFrame::Simple(bytes(x)?));
    }
    if let Some(x) = v.get("error") {
        return Some(RFrame::Error(bytes(x)?));
    }
    if let Some(x) = v.get("integer") {
        return Some(RFrame::Integer(x.as_i64()?));
    }
    if let Some(x) = v.get("bulk") {
        return Some(RFrame::Bulk(bytes(x)?));
    }
    if let Some(x) = v.get("array") {
        return Some(RFrame::Array(x.as_array()?.iter().filter_map(frame_from_json).collect()));
    }
    None
}

// ---------------------------------------------------------------------------------------------

pub fn worker(job: &Job) -> Shard {
    let mut sh = Shard::default();
    let t0 = Instant::now();
    match job.prop.as_str() {
        "C07" => {
            c07_numbers(job, &mut sh);
            c07_substitutions(job, &mut sh);
            c07_sized(job, &mut sh);
            c07_deep(job, &mut sh);
            c07_strings(job, &mut sh, t0);
        }
        "C08" => {
            c08_long(job, &mut sh);
            c08(job, &mut sh, t0)
        }
        p => panic!("no E4 plan for {}", p),
    }
    sh
}

pub fn replay(prop: &str, case: &Value) -> Vec<Violation> {
    let mut sh = Shard::default();
    match case["kind"].as_str().unwrap_or("") {
        "input" => {
            let bytes: Vec<u8> = case["bytes"].as_array().map(|a| a.iter().map(|b| b.as_u64().unwrap() as u8).collect()).unwrap_or_default();
            for (class, msg) in judge_input(&bytes, true) {
                viol(&mut sh, prop, &class, msg, &bytes, "replay");
            }
        }
        "sized" => {
            let mut bytes = sized_message(case["gen"].as_str().unwrap_or(""), case["n"].as_u64().unwrap_or(0) as usize, case["fill"].as_u64().unwrap_or(0) as u8);
            if let Some(k) = case["truncate_to"].as_u64() {
                bytes.truncate(k as usize);
            }
            let mut with_tail = bytes.clone();
            with_tail.extend_from_slice(b":5\r\n+x");
            for b in [bytes, with_tail] {
                for (class, msg) in judge_input(&b, false) {
                    viol(&mut sh, prop, &class, msg, &b, "replay of a sized message");
                }
            }
        }
        "long" => {
            // re-run the whole battery for this spec
            let kind = case["gen"].as_str().unwrap_or("").to_string();
            let n = case["n"].as_u64().unwrap_or(0) as usize;
            let frames = long_frames(&kind, n);
            let mut want = vec![];
            for f in &frames {
                resp_encode(f, &mut want);
            }
            match write_all(&frames) {
                Ok(e) if e == want => {}
                other => sh.violate(Violation { class: "C08:encoding-differs-from-reference".into(), msg: format!("replay of long traffic {}({}): {:?}", kind, n, other.map(|b| b.len())), case: case.clone() }),
            }
            for c in [usize::MAX, 1000, 4096, 8192, 16_384, 65_536] {
                let mut script: Vec<SEv> = if c == usize::MAX { vec![SEv::Data(want.clone())] } else { want.chunks(c).map(|x| SEv::Data(x.to_vec())).collect() };
                script.push(SEv::Eof);
                let (got, end) = read_all(script);
                if got != frames || end != ReadEnd::CleanEof {
                    sh.violate(Violation { class: "C08:decoded-frames-differ".into(), msg: format!("replay of long traffic {}({}) in chunks of {}: {} frames then {:?}", kind, n, c, got.len(), end), case: case.clone() });
                    break;
                }
            }
        }
        "roundtrip" => {
            let frames: Vec<RFrame> = case["frames"].as_array().map(|a| a.iter().filter_map(frame_from_json).collect()).unwrap_or_default();
            // re-run the whole round-trip battery for exactly this frame sequence
            let job = Job { prop: prop.into(), tier: Tier::Thorough, seed: 0, shard: 0, nshards: 1, outdir: "/dev/shm".into(), pass: "e4".into(), deadline_s: 600 };
            let t0 = Instant::now();
            let _ = &job;
            c08_one(&frames, &mut sh, t0);
        }
        "deep" => {
            let job = Job { prop: prop.into(), tier: Tier::Thorough, seed: 0, shard: 0, nshards: 1, outdir: "/dev/shm".into(), pass: "e4".into(), deadline_s: 600 };
            c07_deep(&job, &mut sh);
            let what = case["what"].as_str().unwrap_or("");
            sh.violations.retain(|v| v.case["what"].as_str() == Some(what));
        }
        _ => {}
    }
    sh.violations
}

/// LONG traffic (state that accumulates over many frames, element counts and payloads beyond the
/// small universe), generated from a spec so that a replay can rebuild it.
pub fn long_frames(kind: &str, n: usize) -> Vec<RFrame> {
    match kind {
        "many_small" => (0..n)
            .map(|i| match i % 6 {
                0 => RFrame::Simple(b"OK".to_vec()),
                1 => RFrame::Integer(i as i64 - 1000),
                2 => RFrame::Bulk(format!("value-{}", i).into_bytes()),
                3 => RFrame::Null,
                4 => RFrame::Error(b"ERR e".to_vec()),
                _ => RFrame::Array(vec![RFrame::Bulk(b"k".to_vec()), RFrame::Integer(i as i64), RFrame::Simple(vec![])]),
            })
            .collect(),
        "array_n" => vec![
            RFrame::Array(
                (0..n)
                    .map(|i| match i % 4 {
                        0 => RFrame::Bulk(vec![b'e'; i % 5]),
                        1 => RFrame::Integer(i as i64),
                        2 => RFrame::Simple(vec![]),
                        _ => RFrame::Null,
                    })
                    .collect(),
            ),
            RFrame::Integer(7),
        ],
        "bulk_n" => vec![RFrame::Bulk((0..n).map(|i| (i % 253) as u8).collect()), RFrame::Simple(b"x".to_vec()), RFrame::Bulk(vec![b'\n'; n])],
        // a large value FOLLOWED BY SMALL frames only (what is buffered after it is far less than it was)
        "bulk_then_small" => vec![RFrame::Integer(1), RFrame::Bulk(vec![b'L'; n]), RFrame::Simple(b"x".to_vec()), RFrame::Integer(5), RFrame::Null, RFrame::Bulk(b"tail".to_vec())],
        "array_big_elem" => vec![RFrame::Array(vec![RFrame::Bulk(b"SET".to_vec()), RFrame::Bulk(b"k".to_vec()), RFrame::Bulk(vec![b'v'; n])]), RFrame::Simple(b"OK".to_vec()), RFrame::Array(vec![RFrame::Bulk(b"GET".to_vec()), RFrame::Bulk(b"k".to_vec())])],
        _ => vec![],
    }
}

fn c08_long(job: &Job, sh: &mut Shard) {
    let mut specs: Vec<(&str, usize)> = vec![];
    for n in job.tier.pick(vec![300usize, 3000], vec![300, 3000, 30_000, 120_000]) {
        specs.push(("many_small", n));
    }
    for n in job.tier.pick(vec![255usize, 256, 257, 1000, 70_000], vec![9, 10, 11, 99, 100, 101, 255, 256, 257, 999, 1000, 1001, 4096, 65_535, 65_536, 65_537, 100_000]) {
        specs.push(("array_n", n));
    }
    for n in job.tier.pick(vec![65_535usize, 65_536, 65_537, 1 << 20], vec![16_383, 16_384, 16_385, 65_535, 65_536, 65_537, 131_072, 1 << 20, (1 << 20) + 1, 4 << 20]) {
        specs.push(("bulk_n", n));
        specs.push(("bulk_then_small", n));
        specs.push(("array_big_elem", n));
    }
    for n in [70_000usize, 73_000, 74_000, 80_000, 100_000, 200_000] {
        specs.push(("bulk_then_small", n));
        specs.push(("array_big_elem", n));
    }
    for (i, (kind, n)) in specs.iter().enumerate() {
        if i % job.nshards != job.shard {
            continue;
        }
        let frames = long_frames(kind, *n);
        let what = format!("long traffic {}({})", kind, n);
        let case = |extra: Value| json!({"engine": "resp", "kind": "long", "gen": kind, "n": n, "at": extra});
        let mut want = vec![];
        for f in &frames {
            resp_encode(f, &mut want);
        }
        sh.nontrivial.insert(fnv(what.as_bytes()));
        // write side
        for (caps, rest) in [(vec![], 0usize), (vec![], 100), (vec![], 4096), (vec![], 8191), (vec![], 8192), (vec![0, 5, 0], 65_536)] {
            sh.evaluations += 1;
            match write_all_with(&frames, &caps, rest) {
                Ok(e) if e == want => {}
                Ok(e) => {
                    let d = e.iter().zip(want.iter()).position(|(a, b)| a != b).unwrap_or(e.len().min(want.len()));
                    sh.violate(Violation { class: "C08:encoding-differs-from-reference".into(), msg: format!("{}: transport accepting {:?} then {} bytes per call: {} bytes written, reference {}, first difference at byte {}", what, caps, rest, e.len(), want.len(), d), case: case(json!({"write_caps": caps, "rest": rest})) });
                    break;
                }
                Err(m) => {
                    sh.violate(Violation { class: format!("C08:{}", if m.contains("PANIC") { "write-panics" } else { "write-fails" }), msg: format!("{}: {}", what, m), case: case(json!({"write_caps": caps, "rest": rest})) });
                    break;
                }
            }
        }
        // read side: whole, fixed-size chunks (a read that fills the buffer exactly), single cuts at the marks
        let nbytes = want.len();
        let mut deliveries: Vec<(String, Vec<SEv>)> = vec![("whole".into(), vec![SEv::Data(want.clone())])];
        for c in [1000usize, 4096, 8192, 16_384, 65_536] {
            deliveries.push((format!("chunks of {}", c), want.chunks(c).map(|x| SEv::Data(x.to_vec())).collect()));
        }
        for c in [1usize, 8191, 8192, 8193, 16_384, 65_535, 65_536, 65_537, nbytes / 2, nbytes - 1] {
            if c > 0 && c < nbytes {
                deliveries.push((format!("cut at {}", c), vec![SEv::Data(want[..c].to_vec()), SEv::Data(want[c..].to_vec())]));
            }
        }
        for (dname, mut script) in deliveries {
            script.push(SEv::Eof);
            sh.evaluations += 1;
            sh.transitions += frames.len() as u64;
            let (got, end) = read_all(script);
            if got != frames || end != ReadEnd::CleanEof {
                let d = got.iter().zip(frames.iter()).position(|(a, b)| a != b).unwrap_or(got.len().min(frames.len()));
                sh.violate(Violation { class: format!("C08:{}", if matches!(end, ReadEnd::Panic(_)) { "read-panics" } else { "decoded-frames-differ" }), msg: format!("{} delivered as {}: {} frames then {:?}, expected {} frames then a clean end; first difference at frame #{}", what, dname, got.len(), end, frames.len(), d + 1), case: case(json!({"delivery": dname})) });
                break;
            }
        }
        sh.outcome(format!("long:{}", kind));
    }
    sh.count("long-traffic-specs", specs.len() as u64);
}

/// Transports that accept less than they are offered: (bytes accepted by the first write calls
/// (0 = not ready once), bytes accepted by every later call (0 = everything)).
fn write_scripts() -> Vec<(Vec<usize>, usize)> {
    vec![(vec![], 1), (vec![], 7), (vec![], 100), (vec![], 4096), (vec![], 8191), (vec![0, 3, 0, 1], 0), (vec![1], 0), (vec![0, 0, 5, 0], 1000), (vec![8192], 1), (vec![4, 8188, 1], 3)]
}

/// The C08 battery for one explicit frame sequence (replay).
fn c08_one(frames: &[RFrame], sh: &mut Shard, _t0: Instant) {
    let enc = match write_all(frames) {
        Ok(e) => e,
        Err(m) => {
            sh.violate(Violation { class: "C08:write-fails".into(), msg: m, case: json!({"engine": "resp", "kind": "roundtrip", "frames": frames.iter().map(frame_json).collect::<Vec<_>>()}) });
            return;
        }
    };
    let mut want = vec![];
    for f in frames {
        resp_encode(f, &mut want);
    }
    if enc != want {
        sh.violate(Violation { class: "C08:encoding-differs-from-reference".into(), msg: format!("{} bytes written, reference {}", enc.len(), want.len()), case: json!({"engine": "resp", "kind": "roundtrip", "frames": frames.iter().map(frame_json).collect::<Vec<_>>()}) });
    }
    for (caps, rest) in &write_scripts() {
        match write_all_with(frames, caps, *rest) {
            Ok(e2) if e2 == want => {}
            other => {
                sh.violate(Violation { class: "C08:encoding-depends-on-how-much-the-transport-accepts".into(), msg: format!("transport accepting {:?} then {} bytes per call: {:?}", caps, rest, other.map(|b| b.len())), case: json!({"engine": "resp", "kind": "roundtrip", "frames": frames.iter().map(frame_json).collect::<Vec<_>>()}) });
                break;
            }
        }
    }
    for k in 0..=enc.len() {
        let (got, end) = read_all(vec![SEv::Data(enc[..k].to_vec())]);
        if let ReadEnd::Panic(m) = &end {
            sh.violate(Violation { class: "C08:strict-prefix-panics".into(), msg: format!("prefix {}: {} ({:?})", k, m, got), case: json!({"engine": "resp", "kind": "roundtrip", "frames": frames.iter().map(frame_json).collect::<Vec<_>>()}) });
        } else if k < enc.len() && !matches!(end, ReadEnd::Pending) {
            sh.violate(Violation { class: "C08:strict-prefix-reported-as-error".into(), msg: format!("prefix {}: {:?}", k, end), case: json!({"engine": "resp", "kind": "roundtrip", "frames": frames.iter().map(frame_json).collect::<Vec<_>>()}) });
        }
    }
    let mut script: Vec<SEv> = enc.iter().map(|b| SEv::Data(vec![*b])).collect();
    script.push(SEv::Eof);
    let (got, end) = read_all(script);
    if got != frames || end != ReadEnd::CleanEof {
        sh.violate(Violation { class: "C08:decoded-frames-differ".into(), msg: format!("byte-wise: {:?} then {:?}", got, end), case: json!({"engine": "resp", "kind": "roundtrip", "frames": frames.iter().map(frame_json).collect::<Vec<_>>()}) });
    }
}

pub fn report_meta(prop: &str, tier: Tier) -> (String, Value, Vec<String>) {
    match prop {
        "C07" => {
            let l = tier.pick(6, 8);
            let grid = number_grid().len();
            (
                format!("(a) ALL byte strings of length <= {} over the 12 symbols {:?}: check alone, parse alone, check-then-parse, and every strict prefix of every fully accepted string; (b) number grid of {} messages: carriers integer / bulk length / array length, at top level and nested after a filler of 0..40 bytes (moves the digits across absolute offset 18), signs none/+/-, 1..21 digits, values around i64::MIN/MAX, 10^19, 2^64; (c) every truncation point of every grid message and of the request set; (d) nesting depth up to 10^6 and (e) declared lengths up to 2^64-1, each in a forked child on an 8 MiB and a 2 MiB stack. Oracle: never a panic or process death; every accepted frame equals what an independent decoder (exact i128 decimal reader) gives, with the same length; check's length = parse's length; no strict prefix accepted as the same frame. Distinct+non-trivial = inputs accepted by check (strings) / grid messages / child cases.", l, String::from_utf8_lossy(ALPHA), grid),
                json!({"max_string_length": l, "alphabet": String::from_utf8_lossy(ALPHA), "number_grid_messages": grid, "nesting_depths": [1, 2, 8, 64, 1000, 10000, 100000, 1000000]}),
                vec!["the independent decoder mirrors the implementation's documented leniency (the byte after a CR is not inspected) and is exact on numbers".to_string(), "stack sizes: 8 MiB main thread (svr's blocking/main), 2 MiB (tokio worker default)".to_string()],
            )
        }
        _ => {
            let seqs = sequences(tier).len();
            (
                format!("{} frame sequences (all frame kinds; integers incl. i64::MIN/MAX; bulk strings incl. empty, CR, LF, CRLF, NUL/0xFF, 8192 and 8193 bytes; arrays of length 0..{} over 9 element kinds (incl. the 3-byte empty simple string / error); sequences of 1..{} frames). Each is encoded by the real write_frame into a scripted stream (bytes must equal an independent reference encoder), then delivered back to the real read_frame under a hand-written executor: all 2^(n-1) segmentations for n <= {} bytes, else whole / byte-wise / every single cut / pairs of cuts near both ends; every placement of <= 2 Pending answers between segments; every strict prefix followed by silence (must stay incomplete after yielding the complete frames) and by EOF (must be an error unless at a frame boundary). Distinct+non-trivial = frame sequences.", seqs, tier.pick(3, 4), tier.pick(3, 4), tier.pick(14, 17)),
                json!({"frame_sequences": seqs, "exhaustive_segmentation_up_to_bytes": tier.pick(14, 17)}),
                vec!["nested arrays are outside 'any frame the connection can write' (write_frame has unimplemented!() for them); they are covered on the decoding side by C07".to_string()],
            )
        }
    }
}

pub fn child_deep(_args: &[String]) -> i32 {
    0
}
#[allow(dead_code)]
fn _keep(_: &dyn Fn(&[u8], usize) -> Result<(Option<i128>, usize), RErr>) {
    let _ = ref_decimal;
}
