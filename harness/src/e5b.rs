//! E5 scenarios other than C06: C10 (hostile input), C11 (concurrent clients), C15 (connection
//! limit), C16 (graceful shutdown). Infrastructure is in e5.rs.

use std::io::{Read, Write};
use std::net::{Shutdown as NetShutdown, TcpStream};
use std::path::Path;
use std::sync::atomic::Ordering;
use std::time::{Duration, Instant};

use bytes::Bytes;
use bitcask::storage::KeyValueStorage;
use serde_json::{json, Value};

use crate::common::*;
use crate::e5::*;
use crate::model::{cmd, linearizable, resp_decode, resp_encode, resp_split, Kv, LEvent, LOp, LRes, RErr, RFrame};

/// Cap for positive expectations: three to four orders of magnitude above the measured latencies.
const T20: Duration = Duration::from_secs(6);

fn enc(f: &RFrame) -> Vec<u8> {
    let mut v = vec![];
    resp_encode(f, &mut v);
    v
}
fn lres_frame(r: &LRes) -> Option<RFrame> {
    match r {
        LRes::Unit => Some(RFrame::Simple(b"OK".to_vec())),
        LRes::Val(Some(v)) => Some(RFrame::Bulk(v.clone())),
        LRes::Val(None) => Some(RFrame::Null),
        LRes::Bool(b) => Some(RFrame::Integer(*b as i64)),
        LRes::Pending => None,
    }
}

type V = (String, String);
fn mach(m: impl Into<String>) -> V {
    ("MACHINERY".into(), m.into())
}

// =============================================================================================
// C15 — connection limit and slots
// =============================================================================================

#[derive(Clone, Copy, Debug, PartialEq, Eq, Hash)]
pub enum Kind {
    Get,
    Silent,
    Half,
    Malformed,
    Panic,
    /// the server's accept of this connection fails with ECONNABORTED (injected): it never holds a
    /// slot and is never served
    Aborted,
    /// its GET is held inside the store call (on the blocking pool) until a Finish event: the handler
    /// notices nothing, not even that its client has gone, before the command returns
    Busy,
    /// GET of an 8 MiB value by a client that never reads: the handler is stuck writing the reply
    BigGet,
}
#[derive(Clone, Copy, Debug, PartialEq, Eq, Hash)]
pub enum CEv {
    Connect(Kind),
    /// close the i-th connection (by creation order) that the client still has open
    Close(usize),
    /// abort it (RST instead of FIN; SO_LINGER 0): a connection that is still waiting in the
    /// backlog is later accepted as a dead socket (getpeername fails on it, reads fail after the
    /// bytes received before the reset)
    Reset(usize),
    /// let the held command of the i-th accepted, unfinished Busy connection return
    Finish(usize),
}

#[derive(Clone, Debug)]
struct MConn {
    kind: Kind,
    client_open: bool,
    accepted: bool,
    server_done: bool,
    /// reset by the client while still in the backlog (the server later accepts a dead socket; what
    /// the client had sent before is still readable from it)
    reset_before_accept: bool,
    /// Busy: the held command has been let go
    busy_done: bool,
}

fn model_apply(conns: &mut Vec<MConn>, e: CEv) {
    match e {
        CEv::Connect(k) => conns.push(MConn { kind: k, client_open: true, accepted: false, server_done: false, reset_before_accept: false, busy_done: false }),
        CEv::Finish(i) => {
            let idx = conns.iter().enumerate().filter(|(_, c)| c.kind == Kind::Busy && c.accepted && !c.busy_done).map(|(j, _)| j).nth(i).unwrap();
            conns[idx].busy_done = true;
        }
        CEv::Close(i) | CEv::Reset(i) => {
            let idx = conns.iter().enumerate().filter(|(_, c)| c.client_open).map(|(j, _)| j).nth(i).unwrap();
            conns[idx].client_open = false;
            if matches!(e, CEv::Reset(_)) && !conns[idx].accepted {
                conns[idx].reset_before_accept = true;
            }
        }
    }
}

/// Reference model of the accept loop: FIFO accept whenever fewer than N handlers are alive.
fn settle(conns: &mut [MConn], n: usize) {
    loop {
        for c in conns.iter_mut() {
            if c.accepted && !c.server_done {
                let ends = match c.kind {
                    Kind::Malformed | Kind::Panic | Kind::Aborted => true,
                    Kind::Busy => c.busy_done && !c.client_open,
                    _ => !c.client_open,
                };
                if ends {
                    c.server_done = true;
                }
            }
        }
        let alive = conns.iter().filter(|c| c.accepted && !c.server_done).count();
        if alive < n {
            if let Some(c) = conns.iter_mut().find(|c| !c.accepted) {
                c.accepted = true;
                continue;
            }
        }
        return;
    }
}

fn c15_enabled(conns: &[MConn], n: usize, max_conns: usize, busy: bool) -> Vec<CEv> {
    let mut v = vec![];
    if busy {
        // the plan with commands in flight: three kinds of connection, close / reset / finish
        if conns.len() < max_conns {
            for k in [Kind::Get, Kind::Busy, Kind::BigGet] {
                v.push(CEv::Connect(k));
            }
        }
        let open = conns.iter().filter(|c| c.client_open).count();
        for i in 0..open {
            v.push(CEv::Close(i));
        }
        if open > 0 {
            v.push(CEv::Reset(0));
        }
        let held = conns.iter().filter(|c| c.kind == Kind::Busy && c.accepted && !c.busy_done).count();
        for i in 0..held {
            v.push(CEv::Finish(i));
        }
        return v;
    }
    if conns.len() < max_conns {
        for k in [Kind::Get, Kind::Silent, Kind::Half, Kind::Malformed, Kind::Aborted] {
            v.push(CEv::Connect(k));
        }
        // a handler panic can only be armed deterministically when the connection is accepted at once
        let alive = conns.iter().filter(|c| c.accepted && !c.server_done).count();
        if alive < n && conns.iter().all(|c| c.accepted) {
            v.push(CEv::Connect(Kind::Panic));
        }
    }
    let open = conns.iter().filter(|c| c.client_open).count();
    for i in 0..open {
        v.push(CEv::Close(i));
    }
    // resets: of connections that still wait in the backlog (the case that differs from a close
    // for the server: a dead socket comes out of accept), and of the oldest open connection
    let mut j = 0;
    for c in conns.iter() {
        if c.client_open {
            // (not for a connection whose accept is to be failed: the injection recognises it by
            // its peer address, which a dead socket no longer has)
            if (!c.accepted || j == 0) && c.kind != Kind::Aborted {
                v.push(CEv::Reset(j));
            }
            j += 1;
        }
    }
    v
}

pub fn c15_words(n: usize, len: usize, max_conns: usize, busy: bool) -> Vec<Vec<CEv>> {
    fn rec(conns: &mut Vec<MConn>, n: usize, len: usize, max_conns: usize, busy: bool, cur: &mut Vec<CEv>, out: &mut Vec<Vec<CEv>>) {
        if cur.len() == len {
            out.push(cur.clone());
            return;
        }
        let en = c15_enabled(conns, n, max_conns, busy);
        if en.is_empty() {
            out.push(cur.clone());
            return;
        }
        for e in en {
            let saved = conns.clone();
            model_apply(conns, e);
            settle(conns, n);
            cur.push(e);
            rec(conns, n, len, max_conns, busy, cur, out);
            cur.pop();
            *conns = saved;
        }
    }
    let mut out = vec![];
    rec(&mut vec![], n, len, max_conns, busy, &mut vec![], &mut out);
    out
}

struct CConn {
    sock: Option<TcpStream>,
    got_reply: bool,
    saw_end: bool,
    bytes: Vec<u8>,
}

/// Run one C15 word on a fresh server; observations are checked after every event.
pub fn c15_case(dir: &Path, n: usize, word: &[CEv]) -> Result<String, V> {
    crate::iohook::accept_abort_clear();
    let srv = Srv::start(dir, &SrvCfg { max_connections: n, max_file_size: 1 << 31, gated: false }).map_err(mach)?;
    let get = cmd(&[b"GET", b"k"]);
    let get_busy = cmd(&[b"GET", b"busy"]);
    let get_big = cmd(&[b"GET", b"big"]);
    let mut model: Vec<MConn> = vec![];
    let mut cl: Vec<CConn> = vec![];
    let has_busy = word.iter().any(|e| matches!(e, CEv::Connect(Kind::Busy) | CEv::Connect(Kind::BigGet)));
    // held commands of Busy connections, in the order they reached the store (= order of acceptance)
    let mut busy_released = 0usize;
    let r = (|| -> Result<String, V> {
        if has_busy {
            srv.handle.set(Bytes::from_static(b"big"), Bytes::from(vec![b'G'; 8 << 20])).map_err(|e| mach(e.to_string()))?;
            srv.gate.hold_only(format!("get {}", hex(b"busy")));
        }
        for (step, ev) in word.iter().enumerate() {
            let e0 = srv.epoch();
            let clones0 = srv.gate.clones();
            match *ev {
                CEv::Connect(kind) => {
                    let mut s = if kind == Kind::Aborted { srv.connect_to_be_aborted() } else { srv.connect() }.map_err(|e| mach(format!("connect: {}", e)))?;
                    model_apply(&mut model, *ev);
                    match kind {
                        Kind::Get => s.write_all(&get).map_err(|e| mach(e.to_string()))?,
                        Kind::Aborted => {
                            let _ = s.write_all(&get);
                        }
                        Kind::Silent => {}
                        Kind::Busy => s.write_all(&get_busy).map_err(|e| mach(e.to_string()))?,
                        Kind::BigGet => s.write_all(&get_big).map_err(|e| mach(e.to_string()))?,
                        Kind::Half => s.write_all(&get[..get.len() / 2]).map_err(|e| mach(e.to_string()))?,
                        Kind::Malformed => s.write_all(b"!this is not RESP\r\n").map_err(|e| mach(e.to_string()))?,
                        Kind::Panic => {
                            // accepted at once (enabledness rule): let the listener take it, then arm the
                            // next clone (the handler's per-command clone) and send the command
                            if !srv.gate.wait_clones(clones0 + 1, T20) {
                                return Err(("served-connection-not-answered".into(), "a connection that must be accepted at once was not accepted within 6 s".into()));
                            }
                            srv.quiesce(e0);
                            srv.gate.arm_clone_panic(1);
                            s.write_all(&get).map_err(|e| mach(e.to_string()))?;
                        }
                    }
                    cl.push(CConn { sock: Some(s), got_reply: false, saw_end: false, bytes: vec![] });
                }
                CEv::Finish(_) => {
                    // the held commands reached the store in the order their connections were accepted
                    let busy_ops_now = || -> Vec<usize> { srv.gate.snapshot().iter().enumerate().filter(|(_, o)| o.desc.starts_with(&format!("get {}", hex(b"busy")))).map(|(i, _)| i).collect() };
                    let mut busy_ops = busy_ops_now();
                    // which one: the i-th accepted unfinished Busy connection = the (released so far + i)-th
                    // only if the earlier ones were released in order; map through the model instead
                    let CEv::Finish(i) = *ev else { unreachable!() };
                    let idx = model.iter().enumerate().filter(|(_, c)| c.kind == Kind::Busy && c.accepted && !c.busy_done).map(|(j, _)| j).nth(i).unwrap();
                    // rank of that connection among all accepted Busy connections (by creation = acceptance order)
                    let rank = model.iter().take(idx).filter(|c| c.kind == Kind::Busy && c.accepted).count();
                    // (it may still be on its way if the states before were not judged)
                    let t0 = Instant::now();
                    while busy_ops.len() <= rank && t0.elapsed() < T20 {
                        std::thread::sleep(Duration::from_micros(300));
                        busy_ops = busy_ops_now();
                    }
                    let Some(&op) = busy_ops.get(rank) else { return Err(("served-connection-not-answered".into(), format!("the command of busy connection #{} has not reached the store", idx))) };
                    model_apply(&mut model, *ev);
                    srv.gate.release_before(op);
                    srv.gate.release_after(op);
                    busy_released += 1;
                }
                CEv::Close(i) | CEv::Reset(i) => {
                    let idx = model.iter().enumerate().filter(|(_, c)| c.client_open).map(|(j, _)| j).nth(i).unwrap();
                    model_apply(&mut model, *ev);
                    if let Some(s) = cl[idx].sock.take() {
                        if matches!(*ev, CEv::Reset(_)) {
                            use std::os::unix::io::AsRawFd;
                            let lg = libc::linger { l_onoff: 1, l_linger: 0 };
                            unsafe {
                                libc::setsockopt(s.as_raw_fd(), libc::SOL_SOCKET, libc::SO_LINGER, &lg as *const _ as *const libc::c_void, std::mem::size_of::<libc::linger>() as u32);
                            }
                        }
                        drop(s);
                    }
                }
            }
            settle(&mut model, n);
            // a connection whose client has gone while its command is still executing: whether its
            // slot is already free is the server's choice (the pinned one keeps it until the command
            // returns; giving it up at once would be as good) - nothing is demanded in such a state,
            // the accounting is judged again once the command has returned
            let ambiguous = model.iter().any(|c| c.kind == Kind::Busy && c.accepted && !c.busy_done && !c.client_open);
            if ambiguous {
                srv.quiesce(e0);
                continue;
            }
            check_c15_state(&srv, &model, &mut cl, e0, n, step, word)?;
        }
        // after the word: every held command returns, everything is closed, the full capacity must be
        // available again
        let _ = busy_released;
        if has_busy {
            srv.gate.release_all();
            for m in model.iter_mut() {
                m.busy_done = true;
            }
        }
        for (i, c) in cl.iter_mut().enumerate() {
            model[i].client_open = false;
            c.sock = None;
        }
        settle(&mut model, n);
        let e0 = srv.epoch();
        srv.quiesce(e0);
        // time passes (a minute, in two steps): whatever the server does on timers must not cost slots
        srv.let_time_pass(31_000);
        srv.let_time_pass(31_000);
        // many short-lived connections, each doing several commands and ending in turn by close, by
        // reset, and after a bad command: the accounting must come out even after any number of them
        let set = Req::Set(b"cyc".to_vec(), b"1".to_vec()).encode();
        // (one word in a few hundred gets a LONG run instead: counters that go wrong after 256 / 1 024 /
        // 65 536 connections)
        let ncyc = if LONG_CYCLES.swap(0, Ordering::SeqCst) > 0 { tier_cycles_long() } else { tier_cycles() };
        for cyc in 0..ncyc {
            let mut s = srv.connect().map_err(|e| mach(format!("connect: {}", e)))?;
            for _ in 0..(cyc % 3) + 1 {
                s.write_all(&get).map_err(|e| mach(e.to_string()))?;
                match read_frame(&mut s, T20) {
                    Ok((RFrame::Null, _)) => {}
                    other => return Err(("slot-leaked".into(), format!("short-lived connection {} (after the word) is not served: {:?}", cyc + 1, other.map(|x| x.0)))),
                }
            }
            match cyc % 4 {
                0 => {}
                1 => {
                    use std::os::unix::io::AsRawFd;
                    let lg = libc::linger { l_onoff: 1, l_linger: 0 };
                    unsafe {
                        libc::setsockopt(s.as_raw_fd(), libc::SOL_SOCKET, libc::SO_LINGER, &lg as *const _ as *const libc::c_void, std::mem::size_of::<libc::linger>() as u32);
                    }
                }
                2 => {
                    s.write_all(&set).map_err(|e| mach(e.to_string()))?;
                    let _ = read_frame(&mut s, T20);
                    let _ = s.write_all(b"*1\r\n$4\r\nNOPE\r\n");
                    let _ = read_to_end(&mut s, T20);
                }
                _ => {
                    let _ = s.write_all(&get[..get.len() / 2]);
                }
            }
            drop(s);
        }
        let e0 = srv.epoch();
        srv.quiesce(e0);
        let mut fresh: Vec<TcpStream> = vec![];
        for i in 0..n {
            let mut s = srv.connect().map_err(|e| mach(format!("connect: {}", e)))?;
            s.write_all(&get).map_err(|e| mach(e.to_string()))?;
            match read_frame(&mut s, T20) {
                Ok((RFrame::Null, _)) => {}
                other => return Err(("slot-leaked".into(), format!("after the word, fresh connection {} of {} (all kept open) is not served: {:?}", i + 1, n, other.map(|x| x.0)))),
            }
            fresh.push(s);
        }
        // the N stay open and SILENT while a lot of time passes for the server (a minute, an hour, two
        // days): a server that hangs up on silent connections may do so, the accounting must still
        // come out even - the ones it closed are replaced, all of them served
        for ms in [31_000i64, 31_000, 3_600_000, 172_800_000] {
            srv.let_time_pass(ms);
        }
        let mut still_open: Vec<TcpStream> = vec![];
        for mut s in fresh.drain(..) {
            let (_, eof, err) = try_read(&mut s);
            if !eof && err.is_none() {
                still_open.push(s);
            }
        }
        let closed_by_server = n - still_open.len();
        fresh = still_open;
        for i in 0..closed_by_server {
            let mut s = srv.connect().map_err(|e| mach(format!("connect: {}", e)))?;
            s.write_all(&get).map_err(|e| mach(e.to_string()))?;
            match read_frame(&mut s, T20) {
                Ok((RFrame::Null, _)) => {}
                other => return Err(("slot-leaked".into(), format!("the server closed {} silent connections after two days; replacement {} is not served: {:?}", closed_by_server, i + 1, other.map(|x| x.0)))),
            }
            fresh.push(s);
        }
        // one more than the limit is not served while the N are open
        let e0 = srv.epoch();
        let mut extra = srv.connect().map_err(|e| mach(format!("connect: {}", e)))?;
        extra.write_all(&get).map_err(|e| mach(e.to_string()))?;
        srv.quiesce(e0);
        let (b, eof, err) = try_read(&mut extra);
        if !b.is_empty() || eof || err.is_some() {
            return Err(("limit-exceeded".into(), format!("connection {} of max {} was served or closed while {} others are open: bytes {:?} eof {} err {:?}", n + 1, n, n, String::from_utf8_lossy(&b), eof, err)));
        }
        // a slot is handed over when a served one ends
        fresh.remove(0);
        match read_frame(&mut extra, T20) {
            Ok((RFrame::Null, _)) => {}
            other => return Err(("slot-not-handed-over".into(), format!("the waiting connection is not served after a served one closed: {:?}", other.map(|x| x.0)))),
        }
        Ok(format!("served={}", model.iter().filter(|c| c.accepted).count()))
    })();
    let stopped = srv.stop();
    let out = r?;
    if !stopped {
        return Err(("server-does-not-stop".into(), "run() did not return within 6 s after the shutdown signal with all connections closed".into()));
    }
    Ok(out)
}

/// Short-lived connections after every word (set once per process from the tier).
static C15_CYCLES: std::sync::atomic::AtomicUsize = std::sync::atomic::AtomicUsize::new(12);
fn tier_cycles() -> usize {
    C15_CYCLES.load(Ordering::SeqCst)
}
static C15_CYCLES_LONG: std::sync::atomic::AtomicUsize = std::sync::atomic::AtomicUsize::new(1100);
fn tier_cycles_long() -> usize {
    C15_CYCLES_LONG.load(Ordering::SeqCst)
}
/// set to 1 by the driver before a word that is to get the long run
static LONG_CYCLES: std::sync::atomic::AtomicUsize = std::sync::atomic::AtomicUsize::new(0);

fn check_c15_state(srv: &Srv, model: &[MConn], cl: &mut [CConn], e0: u64, n: usize, step: usize, word: &[CEv]) -> Result<(), V> {
    let ctx = |s: &str| format!("{} | after event {} ({:?}) of {:?}, max_connections {}", s, step, word[step], word, n);
    if srv.thread_finished() {
        return Err(("server-died".into(), ctx("the server thread ended")));
    }
    // positive expectations first (blocking, generous cap)
    for (i, m) in model.iter().enumerate() {
        let Some(s) = cl[i].sock.as_mut() else { continue };
        if m.accepted && m.kind == Kind::Get && !cl[i].got_reply {
            match read_frame(s, T20) {
                Ok((RFrame::Null, _)) => cl[i].got_reply = true,
                other => return Err(("served-connection-not-answered".into(), ctx(&format!("connection #{} should be served by now (fewer than {} handlers alive) but: {:?}", i, n, other.map(|x| x.0))))),
            }
        }
        if m.accepted && m.kind == Kind::Busy && m.busy_done && !cl[i].got_reply {
            match read_frame(s, T20) {
                Ok((RFrame::Null, _)) => cl[i].got_reply = true,
                other => return Err(("served-connection-not-answered".into(), ctx(&format!("busy connection #{}: its command has returned but the reply: {:?}", i, other.map(|x| x.0))))),
            }
        }
        if m.accepted && matches!(m.kind, Kind::Malformed | Kind::Panic | Kind::Aborted) && !cl[i].saw_end {
            let (b, how) = read_to_end(s, T20);
            cl[i].bytes.extend_from_slice(&b);
            if how == "timeout" {
                return Err(("offending-connection-not-closed".into(), ctx(&format!("connection #{} ({:?}) is still open 6 s after the server handled it", i, m.kind))));
            }
            cl[i].saw_end = true;
        }
    }
    if !srv.quiesce(e0) {
        return Err(mach(ctx("no quiescence within 10 s")));
    }
    // negative expectations at quiescence
    for (i, m) in model.iter().enumerate() {
        let Some(s) = cl[i].sock.as_mut() else { continue };
        if cl[i].saw_end {
            continue;
        }
        if m.kind == Kind::BigGet {
            // its reply is being written into the socket buffers: nothing to learn from peeking
            continue;
        }
        let (b, eof, err) = try_read(s);
        if !m.accepted {
            if !b.is_empty() || eof || err.is_some() {
                return Err(("limit-exceeded".into(), ctx(&format!("connection #{} must still be waiting for a slot but got bytes {:?} eof {} err {:?}", i, String::from_utf8_lossy(&b), eof, err))));
            }
        } else if !b.is_empty() {
            return Err(("unexpected-bytes".into(), ctx(&format!("connection #{} received {:?}", i, String::from_utf8_lossy(&b)))));
        } else if eof || err.is_some() {
            return Err(("served-connection-closed".into(), ctx(&format!("connection #{} ({:?}) was closed by the server (eof {} err {:?})", i, m.kind, eof, err))));
        }
    }
    // the number of GETs that reached the store equals the number of accepted GET connections
    // (a request that was received before the reset is still read from the dead socket and executed)
    let want = model.iter().filter(|c| c.accepted && matches!(c.kind, Kind::Get | Kind::Busy | Kind::BigGet)).count();
    if !srv.gate.wait_arrivals(want, T20) {
        return Err(("served-connection-not-answered".into(), ctx(&format!("{} commands reached the store within 6 s, the accept model says {}", srv.gate.n_ops(), want))));
    }
    let got = srv.gate.n_ops();
    if got > want {
        return Err(("limit-exceeded".into(), ctx(&format!("{} commands reached the store, the accept model says {}", got, want))));
    }
    Ok(())
}

pub fn c15(job: &Job, sh: &mut Shard, t0: Instant) {
    let plans: Vec<(usize, usize, usize)> = match job.tier {
        // (N, word length, max connections per word)
        Tier::Quick => vec![(1, 6, 3), (2, 6, 3), (3, 4, 4), (101, 5, 3), (102, 5, 3)],
        Tier::Thorough => vec![(1, 7, 4), (2, 7, 4), (3, 6, 4), (2, 8, 4), (101, 7, 3), (102, 7, 4), (103, 6, 4)],
    };
    C15_CYCLES.store(job.tier.pick(4, 24), Ordering::SeqCst);
    C15_CYCLES_LONG.store(job.tier.pick(1100, 70_000), Ordering::SeqCst);
    let dir = job.scratch().join("store");
    for (n, len, maxc) in plans {
        // N + 100: the plan with commands in flight (kinds Get / Busy / BigGet, events close / reset / finish)
        let (n, busy) = if n > 100 { (n - 100, true) } else { (n, false) };
        let words = c15_words(n, len, maxc, busy);
        sh.count(&format!("words:N={},len={}", n, len), 0);
        for (i, w) in words.iter().enumerate() {
            if i % job.nshards != job.shard {
                continue;
            }
            if t0.elapsed().as_secs() > job.deadline_s || sh.viol_counts.values().sum::<u64>() >= 6 {
                sh.capped = true;
                sh.notes.insert(format!("stopped (time cap or 6 violations in this shard) in N={} len={} after {} of {} words", n, len, i, words.len()));
                return;
            }
            let case = json!({"engine": "net", "kind": "c15", "n": n, "word": w.iter().map(|e| format!("{:?}", e)).collect::<Vec<_>>(), "long_run": i / job.nshards % 200 == 0});
            if i % 16 == job.shard % 16 {
                job.progress(&case);
            }
            sh.evaluations += 1;
            sh.transitions += w.len() as u64 + 3;
            // model states along the word
            let mut m: Vec<MConn> = vec![];
            for e in w {
                model_apply(&mut m, *e);
                settle(&mut m, n);
                sh.states.insert(fnv(format!("{}|{:?}", n, m.iter().map(|c| (c.kind, c.client_open, c.accepted, c.server_done, c.reset_before_accept)).collect::<Vec<_>>()).as_bytes()));
            }
            sh.nontrivial.insert(fnv(format!("{}{:?}", n, w).as_bytes()));
            *sh.counters.entry(format!("words:N={},len={}", n, len)).or_insert(0) += 1;
            // the first word of this worker in every plan, and every 200th after it, gets the long run
            let long = i / job.nshards % 200 == 0;
            if long {
                LONG_CYCLES.store(1, Ordering::SeqCst);
                sh.count("words-with-a-long-run-of-connections", 1);
            }
            match c15_case(&dir, n, w) {
                Ok(o) => sh.outcome(format!("N={} {}", n, o)),
                Err((c, msg)) if c == "MACHINERY" => sh.machinery_errors.push(format!("C15 {}", msg)),
                Err((c, msg)) => match {
                    if long {
                        LONG_CYCLES.store(1, Ordering::SeqCst);
                    }
                    c15_case(&dir, n, w)
                } {
                    Err((c2, _)) if c2 == c => sh.violate(Violation { class: format!("C15:{}", c), msg: if msg.contains("max_connections") { msg } else { format!("{} | after the word {:?}, max_connections {}", msg, w, n) }, case }),
                    other => sh.machinery_errors.push(format!("C15 violation {} not reproduced ({:?}): {}", c, other.map_err(|e| e.0), msg)),
                },
            }
            if sh.samples.len() < 2 && i % 211 == job.shard {
                sh.samples.push(json!({"n": n, "word": w.iter().map(|e| format!("{:?}", e)).collect::<Vec<_>>()}));
            }
        }
    }
}

fn parse_cev(s: &str) -> Option<CEv> {
    let k = |x: &str| match x {
        "Get" => Some(Kind::Get),
        "Silent" => Some(Kind::Silent),
        "Half" => Some(Kind::Half),
        "Malformed" => Some(Kind::Malformed),
        "Panic" => Some(Kind::Panic),
        "Aborted" => Some(Kind::Aborted),
        "Busy" => Some(Kind::Busy),
        "BigGet" => Some(Kind::BigGet),
        _ => None,
    };
    if let Some(r) = s.strip_prefix("Connect(") {
        return k(r.trim_end_matches(')')).map(CEv::Connect);
    }
    if let Some(r) = s.strip_prefix("Close(") {
        return r.trim_end_matches(')').parse().ok().map(CEv::Close);
    }
    if let Some(r) = s.strip_prefix("Reset(") {
        return r.trim_end_matches(')').parse().ok().map(CEv::Reset);
    }
    if let Some(r) = s.strip_prefix("Finish(") {
        return r.trim_end_matches(')').parse().ok().map(CEv::Finish);
    }
    None
}

// =============================================================================================
// C11 — concurrent clients, gated at command granularity
// =============================================================================================

fn c11_alphabet(full: bool) -> Vec<Req> {
    let k = b"k".to_vec();
    let mut v = vec![Req::Set(k.clone(), b"1".to_vec()), Req::Get(k.clone()), Req::Del(vec![k.clone()])];
    if full {
        v.push(Req::Set(k, b"2".to_vec()));
        v.push(Req::Get(b"j".to_vec()));
    }
    v
}

#[derive(Clone, Copy, Debug, PartialEq, Eq)]
pub enum GEv {
    Enter(usize),
    Return(usize),
}

fn interleavings(lens: &[usize]) -> Vec<Vec<usize>> {
    // all interleavings of sequences of the given lengths (as sequences of client indices)
    fn rec(left: &mut Vec<usize>, cur: &mut Vec<usize>, out: &mut Vec<Vec<usize>>) {
        if left.iter().all(|&l| l == 0) {
            out.push(cur.clone());
            return;
        }
        for i in 0..left.len() {
            if left[i] > 0 {
                left[i] -= 1;
                cur.push(i);
                rec(left, cur, out);
                cur.pop();
                left[i] += 1;
            }
        }
    }
    let mut out = vec![];
    rec(&mut lens.to_vec(), &mut vec![], &mut out);
    out
}

/// `inner`: writes are held a third time, inside the store call right before they queue for the
/// writer lock; a client's events are then enter / continue / return for SET and DEL (a "continue"
/// for an operation that did not stop there is a no-op).
pub fn c11_case(dir: &Path, progs: &[Vec<Req>], order: &[usize], mfs: u64, merge: bool, inner: bool) -> Result<String, V> {
    let srv = Srv::start(dir, &SrvCfg { max_connections: 8, max_file_size: mfs, gated: true }).map_err(mach)?;
    if inner {
        bitcask::verif::set_hook(crate::e5::inner_gate_hook);
        srv.gate.set_inner_gated(true);
    }
    let nc = progs.len();
    // 0 = not entered, 1 = entered (a write: expects a "continue" event next), 2 = finished inside the store
    let mut phase = vec![0u8; nc];
    let mut parked = vec![false; nc];
    let r = (|| -> Result<String, V> {
        let mut socks: Vec<TcpStream> = vec![];
        let mut next_cmd = vec![0usize; nc];
        let mut cur_op: Vec<Option<usize>> = vec![None; nc];
        let mut client_events: Vec<LEvent> = vec![];
        let mut client_inv: Vec<u64> = vec![0; nc];
        let mut replies: Vec<(usize, usize, RFrame)> = vec![]; // (client, op id, frame)
        let mut enter_order: Vec<usize> = vec![];
        for _ in 0..nc {
            socks.push(srv.connect().map_err(|e| mach(format!("connect: {}", e)))?);
        }
        // each client sends its first command; arrivals are awaited one by one so op ids map to clients
        let send_next = |c: usize, socks: &mut Vec<TcpStream>, next_cmd: &mut Vec<usize>, cur_op: &mut Vec<Option<usize>>, client_inv: &mut Vec<u64>| -> Result<(), V> {
            if next_cmd[c] < progs[c].len() {
                let before = srv.gate.n_ops();
                client_inv[c] = SEQ.fetch_add(1, Ordering::SeqCst);
                socks[c].write_all(&progs[c][next_cmd[c]].encode()).map_err(|e| mach(e.to_string()))?;
                if !srv.gate.wait_arrivals(before + 1, T20) {
                    return Err(("command-never-reaches-the-store".into(), format!("client {} sent {} but it did not arrive at the store within 6 s", c, progs[c][next_cmd[c]].show())));
                }
                cur_op[c] = Some(before);
                next_cmd[c] += 1;
            } else {
                cur_op[c] = None;
            }
            Ok(())
        };
        for c in 0..nc {
            send_next(c, &mut socks, &mut next_cmd, &mut cur_op, &mut client_inv)?;
        }
        for &c in order {
            let Some(op) = cur_op[c] else { return Err(mach("schedule names a client with no outstanding command")) };
            if phase[c] == 0 {
                // Enter
                srv.gate.release_before(op);
                match srv.gate.wait_done_or_inner(op, T20) {
                    None => return Err(("store-call-hangs".into(), format!("operation {} did not finish inside the store within 6 s", op))),
                    Some(p) => parked[c] = p,
                }
                let is_write = !matches!(srv.gate.snapshot()[op].lop, LOp::Get(_));
                phase[c] = if inner && is_write { 1 } else { 2 };
                if !parked[c] {
                    enter_order.push(op);
                }
                if merge {
                    let _ = srv.handle.verif_merge();
                }
            } else if phase[c] == 1 {
                // Continue: let the write queue for the writer lock and finish
                if parked[c] {
                    srv.gate.release_inner(op);
                    if !srv.gate.wait_done(op, T20) {
                        return Err(("store-call-hangs".into(), format!("operation {} did not finish inside the store within 6 s after it was let through to the writer lock", op)));
                    }
                    parked[c] = false;
                    enter_order.push(op);
                    if merge {
                        let _ = srv.handle.verif_merge();
                    }
                }
                phase[c] = 2;
            } else {
                // nothing may be readable while the command is still held inside the store
                let (b, eof, err) = try_read(&mut socks[c]);
                if !b.is_empty() || eof || err.is_some() {
                    return Err(("reply-before-the-command-returned".into(), format!("client {} got {:?} (eof {} err {:?}) while its command is held after the store call", c, String::from_utf8_lossy(&b), eof, err)));
                }
                srv.gate.release_after(op);
                let f = match read_frame(&mut socks[c], T20) {
                    Ok((f, _)) => f,
                    Err(e) => return Err(("reply-missing".into(), format!("client {} op {}: {}", c, op, e))),
                };
                let ret = SEQ.fetch_add(1, Ordering::SeqCst);
                let rec = srv.gate.snapshot()[op].clone();
                client_events.push(LEvent { op: rec.lop.clone(), res: frame_lres(&f, &rec.lop), inv: client_inv[c], ret });
                replies.push((c, op, f));
                phase[c] = 0;
                send_next(c, &mut socks, &mut next_cmd, &mut cur_op, &mut client_inv)?;
            }
        }
        // every program ran to completion; nothing more arrives
        for (c, s) in socks.iter_mut().enumerate() {
            s.shutdown(NetShutdown::Write).ok();
            let (b, how) = read_to_end(s, T20);
            if !b.is_empty() || how == "timeout" {
                return Err(("extra-reply".into(), format!("client {} received {:?} ({}) after its last reply", c, String::from_utf8_lossy(&b), how)));
            }
        }
        let ops = srv.gate.snapshot();
        let total: usize = progs.iter().map(|p| p.len()).sum();
        if ops.len() != total || replies.len() != total {
            return Err(("reply-count".into(), format!("{} commands reached the store and {} replies arrived for {} requests", ops.len(), replies.len(), total)));
        }
        // (b) each reply is the encoding of what its own store call returned
        for (c, op, f) in &replies {
            let want = ops[*op].result.as_ref().and_then(lres_frame);
            if want.as_ref() != Some(f) {
                return Err(("reply-differs-from-the-store-result".into(), format!("client {} op {} ({}) store returned {:?}, reply is {:?}", c, op, ops[*op].desc, ops[*op].result, f)));
            }
        }
        // (a) store-level history linearizable
        let store_events: Vec<LEvent> = ops.iter().map(|o| LEvent { op: o.lop.clone(), res: o.result.clone().unwrap_or(LRes::Pending), inv: o.entered, ret: o.exited }).collect();
        if linearizable(&Kv::new(), &store_events).is_none() {
            return Err(("store-history-not-linearizable".into(), format!("{:?}", ops.iter().map(|o| format!("{} -> {:?} [{}..{}]", o.desc, o.result, o.entered, o.exited)).collect::<Vec<_>>())));
        }
        // client-level history linearizable (request sent .. reply received)
        if linearizable(&Kv::new(), &client_events).is_none() {
            return Err(("client-history-not-linearizable".into(), format!("{:?}", client_events.iter().map(|e| format!("{:?} -> {:?} [{}..{}]", e.op, e.res, e.inv, e.ret)).collect::<Vec<_>>())));
        }
        // exact expectation for one-at-a-time schedules: replies = model applied in entry order
        let one_at_a_time = ops.iter().enumerate().all(|(i, o)| ops.iter().enumerate().all(|(j, p)| i == j || o.exited < p.entered || p.exited < o.entered));
        if one_at_a_time {
            let mut m = Kv::new();
            for &op in &enter_order {
                let want = match &ops[op].lop {
                    LOp::Set(k, v) => Req::Set(k.clone(), v.clone()).apply(&mut m),
                    LOp::Get(k) => Req::Get(k.clone()).apply(&mut m),
                    LOp::Del(k) => Req::Del(vec![k.clone()]).apply(&mut m),
                    LOp::Nop => continue,
                };
                let got = replies.iter().find(|(_, o, _)| *o == op).map(|x| x.2.clone());
                if got.as_ref() != Some(&want) {
                    return Err(("reply-differs-from-model-in-entry-order".into(), format!("op {} ({}) entered the store {}-th; model says {:?}, reply {:?}", op, ops[op].desc, enter_order.iter().position(|x| *x == op).unwrap() + 1, want, got)));
                }
            }
        }
        Ok(replies.iter().map(|(c, _, f)| format!("c{}:{}", c, String::from_utf8_lossy(&enc(f)).trim_end())).collect::<Vec<_>>().join(" "))
    })();
    let stopped = srv.stop();
    let o = r?;
    if !stopped {
        return Err(mach("server did not stop"));
    }
    Ok(o)
}

/// C11 with the operations parked at EVERY hook point inside the store (before the writer lock and
/// before each KeyDir shard access), on the blocking-pool threads of the real server. A client's
/// events: enter, continue (up to 3, a "continue" that can not be taken is a no-op), return+reply.
/// `preset`: key k already holds "0" (overwrites and deletes of an existing key).
pub fn c11_case_all(dir: &Path, progs: &[Vec<Req>], order: &[usize], preset: bool) -> Result<String, V> {
    let srv = Srv::start(dir, &SrvCfg { max_connections: 8, max_file_size: 1 << 31, gated: true }).map_err(mach)?;
    bitcask::verif::set_hook(crate::e5::inner_gate_hook);
    srv.gate.set_inner_all(true);
    let nc = progs.len();
    let mut init = Kv::new();
    let r = (|| -> Result<String, V> {
        if preset {
            srv.handle.set(Bytes::from_static(b"k"), Bytes::from_static(b"0")).map_err(|e| mach(e.to_string()))?;
            init.insert(b"k".to_vec(), b"0".to_vec());
        }
        let mut socks: Vec<TcpStream> = vec![];
        let mut next_cmd = vec![0usize; nc];
        let mut cur_op: Vec<Option<usize>> = vec![None; nc];
        let mut phase = vec![0u8; nc];
        let mut client_events: Vec<LEvent> = vec![];
        let mut client_inv: Vec<u64> = vec![0; nc];
        let mut replies: Vec<(usize, usize, RFrame)> = vec![];
        for _ in 0..nc {
            socks.push(srv.connect().map_err(|e| mach(format!("connect: {}", e)))?);
        }
        let send_next = |c: usize, socks: &mut Vec<TcpStream>, next_cmd: &mut Vec<usize>, cur_op: &mut Vec<Option<usize>>, client_inv: &mut Vec<u64>| -> Result<(), V> {
            if next_cmd[c] < progs[c].len() {
                let before = srv.gate.n_ops();
                client_inv[c] = SEQ.fetch_add(1, Ordering::SeqCst);
                socks[c].write_all(&progs[c][next_cmd[c]].encode()).map_err(|e| mach(e.to_string()))?;
                if !srv.gate.wait_arrivals(before + 1, T20) {
                    return Err(("command-never-reaches-the-store".into(), format!("client {} sent {} but it did not arrive at the store within 6 s", c, progs[c][next_cmd[c]].show())));
                }
                cur_op[c] = Some(before);
                next_cmd[c] += 1;
            } else {
                cur_op[c] = None;
            }
            Ok(())
        };
        for c in 0..nc {
            send_next(c, &mut socks, &mut next_cmd, &mut cur_op, &mut client_inv)?;
        }
        // one step of client c; Ok(true) if something happened
        let mut step = |c: usize, socks: &mut Vec<TcpStream>, next_cmd: &mut Vec<usize>, cur_op: &mut Vec<Option<usize>>, client_inv: &mut Vec<u64>, phase: &mut Vec<u8>, client_events: &mut Vec<LEvent>, replies: &mut Vec<(usize, usize, RFrame)>| -> Result<bool, V> {
            let Some(op) = cur_op[c] else { return Ok(false) };
            match phase[c] {
                0 => {
                    srv.gate.release_before(op);
                    match srv.gate.wait_done_or_inner(op, T20) {
                        None => return Err(("store-call-hangs".into(), format!("operation {} neither finished nor reached a hook point within 6 s", op))),
                        Some(true) => phase[c] = 1,
                        Some(false) => phase[c] = 2,
                    }
                    Ok(true)
                }
                1 => {
                    if !srv.gate.continue_inner(op) {
                        return Ok(false);
                    }
                    match srv.gate.wait_done_or_inner(op, T20) {
                        None => return Err(("store-call-hangs".into(), format!("operation {} neither finished nor reached its next hook point within 6 s", op))),
                        Some(true) => {}
                        Some(false) => phase[c] = 2,
                    }
                    Ok(true)
                }
                _ => {
                    let (b, eof, err) = try_read(&mut socks[c]);
                    if !b.is_empty() || eof || err.is_some() {
                        return Err(("reply-before-the-command-returned".into(), format!("client {} got {:?} (eof {} err {:?}) while its command is held after the store call", c, String::from_utf8_lossy(&b), eof, err)));
                    }
                    srv.gate.release_after(op);
                    let f = match read_frame(&mut socks[c], T20) {
                        Ok((f, _)) => f,
                        Err(e) => return Err(("reply-missing".into(), format!("client {} op {}: {}", c, op, e))),
                    };
                    let ret = SEQ.fetch_add(1, Ordering::SeqCst);
                    let rec = srv.gate.snapshot()[op].clone();
                    client_events.push(LEvent { op: rec.lop.clone(), res: frame_lres(&f, &rec.lop), inv: client_inv[c], ret });
                    replies.push((c, op, f));
                    phase[c] = 0;
                    send_next(c, socks, next_cmd, cur_op, client_inv)?;
                    Ok(true)
                }
            }
        };
        for &c in order {
            step(c, &mut socks, &mut next_cmd, &mut cur_op, &mut client_inv, &mut phase, &mut client_events, &mut replies)?;
        }
        // drain what the no-op events left over, round robin
        loop {
            if cur_op.iter().all(|o| o.is_none()) {
                break;
            }
            let mut progress = false;
            for c in 0..nc {
                progress |= step(c, &mut socks, &mut next_cmd, &mut cur_op, &mut client_inv, &mut phase, &mut client_events, &mut replies)?;
            }
            if !progress {
                return Err(("deadlock".into(), format!("no client can make a step: phases {:?}, operations {:?}", phase, cur_op)));
            }
        }
        for (c, s) in socks.iter_mut().enumerate() {
            s.shutdown(NetShutdown::Write).ok();
            let (b, how) = read_to_end(s, T20);
            if !b.is_empty() || how == "timeout" {
                return Err(("extra-reply".into(), format!("client {} received {:?} ({}) after its last reply", c, String::from_utf8_lossy(&b), how)));
            }
        }
        let ops = srv.gate.snapshot();
        let total: usize = progs.iter().map(|p| p.len()).sum();
        if ops.len() != total || replies.len() != total {
            return Err(("reply-count".into(), format!("{} commands reached the store and {} replies arrived for {} requests", ops.len(), replies.len(), total)));
        }
        for (c, op, f) in &replies {
            let want = ops[*op].result.as_ref().and_then(lres_frame);
            if want.as_ref() != Some(f) {
                return Err(("reply-differs-from-the-store-result".into(), format!("client {} op {} ({}) store returned {:?}, reply is {:?}", c, op, ops[*op].desc, ops[*op].result, f)));
            }
        }
        let store_events: Vec<LEvent> = ops.iter().map(|o| LEvent { op: o.lop.clone(), res: o.result.clone().unwrap_or(LRes::Pending), inv: o.entered, ret: o.exited }).collect();
        if linearizable(&init, &store_events).is_none() {
            return Err(("store-history-not-linearizable".into(), format!("{}{:?}", if preset { "initially k = '0'; " } else { "" }, ops.iter().map(|o| format!("{} -> {:?} [{}..{}]", o.desc, o.result, o.entered, o.exited)).collect::<Vec<_>>())));
        }
        if linearizable(&init, &client_events).is_none() {
            return Err(("client-history-not-linearizable".into(), format!("{}{:?}", if preset { "initially k = '0'; " } else { "" }, client_events.iter().map(|e| format!("{:?} -> {:?} [{}..{}]", e.op, e.res, e.inv, e.ret)).collect::<Vec<_>>())));
        }
        // the store ends in a state some linearization explains
        Ok(replies.iter().map(|(c, _, f)| format!("c{}:{}", c, String::from_utf8_lossy(&enc(f)).trim_end())).collect::<Vec<_>>().join(" "))
    })();
    srv.gate.release_all();
    let stopped = srv.stop();
    let o = r?;
    if !stopped {
        return Err(mach("server did not stop"));
    }
    Ok(o)
}

/// Real contention on a KeyDir shard: the shard of key k is locked exclusively (store hook) while a
/// client's command that needs that shard is on its way; the command has to wait and then answer
/// correctly - contention is not absence. `which` selects the command.
pub fn c11_shard_case(dir: &Path, which: usize) -> Result<String, V> {
    let srv = Srv::start(dir, &SrvCfg { max_connections: 8, max_file_size: 1 << 31, gated: false }).map_err(mach)?;
    let r = (|| -> Result<String, V> {
        let k = Bytes::from_static(b"k");
        // another key that lives in the same shard as k
        let shard = srv.handle.verif_shard_of(&k);
        let mate: Vec<u8> = (0..100_000).map(|i| format!("m{}", i).into_bytes()).find(|c| srv.handle.verif_shard_of(&Bytes::from(c.clone())) == shard).ok_or_else(|| mach("no second key in the shard of k"))?;
        let mut model = Kv::new();
        for (key, v) in [(b"k".to_vec(), b"0".to_vec()), (mate.clone(), b"7".to_vec())] {
            srv.handle.set(Bytes::from(key.clone()), Bytes::from(v.clone())).map_err(|e| mach(e.to_string()))?;
            model.insert(key, v);
        }
        let reqs = vec![Req::Get(b"k".to_vec()), Req::Get(mate.clone()), Req::Get(b"absent".to_vec()), Req::Set(b"k".to_vec(), b"2".to_vec()), Req::Set(mate.clone(), b"8".to_vec()), Req::Del(vec![b"k".to_vec()]), Req::Del(vec![mate.clone(), b"k".to_vec()])];
        let req = reqs[which % reqs.len()].clone();
        let mut c = srv.connect().map_err(|e| mach(format!("connect: {}", e)))?;
        let want = enc(&req.apply(&mut model));
        let mut got: Vec<u8> = vec![];
        srv.handle.verif_with_shard_locked(&k, || {
            let _ = c.write_all(&req.encode());
            // long enough for the command to reach the shard and find it locked
            std::thread::sleep(Duration::from_millis(12));
            let (b, _, _) = try_read(&mut c);
            got.extend_from_slice(&b);
        });
        let answered_while_locked = !got.is_empty();
        let (rest, how) = read_n(&mut c, want.len().saturating_sub(got.len()), T20);
        got.extend_from_slice(&rest);
        if got != want {
            return Err(("wrong-reply-under-shard-contention".into(), format!("{} while the KeyDir shard of 'k' was locked for 12 ms: reply {:?} ({}{}), expected {:?}", req.show(), String::from_utf8_lossy(&got), how, if answered_while_locked { ", answered while the shard was still locked" } else { "" }, String::from_utf8_lossy(&want))));
        }
        // and the store agrees with the model afterwards
        let keys = vec![b"k".to_vec(), mate.clone(), b"absent".to_vec()];
        let contents = srv.store_contents(&keys);
        let mut mk = model.clone();
        mk.retain(|key, _| keys.contains(key));
        if contents != mk {
            return Err(("store-differs-from-model".into(), format!("after {} under shard contention: store {:?}, model {:?}", req.show(), contents, mk)));
        }
        Ok(format!("shard-held:{}", which % reqs.len()))
    })();
    let stopped = srv.stop();
    let o = r?;
    if !stopped {
        return Err(mach("server did not stop"));
    }
    Ok(o)
}

/// A command whose store call FAILS (every file-system call it makes returns EIO) while another
/// client reads the key: client A issues `DEL k` (which = 0) or `SET k 1` (which = 1) on a store
/// holding k = '0'; A's store call is stepped through its hook points; client B's two `GET k` run
/// to completion before A's step number p1 and p2. A gets no success reply; B's reads must be
/// explained by one order in which the failed command took effect once or not at all.
pub fn c11_fault_case(dir: &Path, which: usize, p1: usize, p2: usize) -> Result<String, V> {
    crate::iohook::grec_start(&dir.to_string_lossy(), false);
    let r = c11_fault_case_inner(dir, which, p1, p2);
    crate::iohook::grec_stop();
    r
}
fn c11_fault_case_inner(dir: &Path, which: usize, p1: usize, p2: usize) -> Result<String, V> {
    let srv = Srv::start(dir, &SrvCfg { max_connections: 8, max_file_size: 1 << 31, gated: true }).map_err(mach)?;
    bitcask::verif::set_hook(crate::e5::inner_gate_hook);
    srv.gate.set_inner_all(true);
    let mut init = Kv::new();
    let r = (|| -> Result<String, V> {
        srv.handle.set(Bytes::from_static(b"k"), Bytes::from_static(b"0")).map_err(|e| mach(e.to_string()))?;
        init.insert(b"k".to_vec(), b"0".to_vec());
        let (a_req, a_lop, prefix) = if which == 0 { (Req::Del(vec![b"k".to_vec()]), LOp::Del(b"k".to_vec()), format!("del {}", hex(b"k"))) } else { (Req::Set(b"k".to_vec(), b"1".to_vec()), LOp::Set(b"k".to_vec(), b"1".to_vec()), format!("set {}", hex(b"k"))) };
        srv.gate.set_fault_prefix(Some(prefix));
        srv.gate.set_fault_stall(true);
        crate::iohook::stall_reset();
        let mut a = srv.connect().map_err(|e| mach(format!("connect: {}", e)))?;
        let mut b = srv.connect().map_err(|e| mach(format!("connect: {}", e)))?;
        let n0 = srv.gate.n_ops();
        a.write_all(&a_req.encode()).map_err(|e| mach(e.to_string()))?;
        if !srv.gate.wait_arrivals(n0 + 1, T20) {
            return Err(("command-never-reaches-the-store".into(), format!("{} did not arrive at the store within 6 s", a_req.show())));
        }
        let op_a = n0;
        let mut events: Vec<LEvent> = vec![];
        let mut reads: Vec<String> = vec![];
        let mut run_get = |b: &mut TcpStream, events: &mut Vec<LEvent>, reads: &mut Vec<String>| -> Result<(), V> {
            let n = srv.gate.n_ops();
            let inv = SEQ.fetch_add(1, Ordering::SeqCst);
            b.write_all(&Req::Get(b"k".to_vec()).encode()).map_err(|e| mach(e.to_string()))?;
            if !srv.gate.wait_arrivals(n + 1, T20) {
                return Err(("command-never-reaches-the-store".into(), "GET k did not arrive at the store within 6 s while another client's command is in progress".into()));
            }
            srv.gate.release_before(n);
            loop {
                match srv.gate.wait_done_or_inner(n, T20) {
                    None => return Err(("store-call-hangs".into(), "GET k neither finished nor reached a hook point within 6 s while another client's failing command is in progress".into())),
                    Some(true) => {
                        srv.gate.continue_inner(n);
                    }
                    Some(false) => break,
                }
            }
            srv.gate.release_after(n);
            let f = read_frame(b, T20).map_err(|e| ("reply-missing".to_string(), format!("GET k: {}", e)))?.0;
            let ret = SEQ.fetch_add(1, Ordering::SeqCst);
            reads.push(String::from_utf8_lossy(&enc(&f)).trim_end().replace("\r\n", " "));
            events.push(LEvent { op: LOp::Get(b"k".to_vec()), res: frame_lres(&f, &LOp::Get(b"k".to_vec())), inv, ret });
            Ok(())
        };
        let mut a_steps = 0usize;
        let mut a_done = false;
        let mut a_stalled = false;
        let mut stall_used = false;
        let mut gets_left: Vec<usize> = vec![p1, p2];
        loop {
            while gets_left.first().map_or(false, |p| *p <= a_steps || a_done) {
                gets_left.remove(0);
                run_get(&mut b, &mut events, &mut reads)?;
            }
            if a_done {
                break;
            }
            // one step of A: up to its next hook point, its (slow, then failing) write, or its end
            if a_steps == 0 {
                srv.gate.release_before(op_a);
            } else if a_stalled {
                crate::iohook::stall_release();
                a_stalled = false;
                stall_used = true;
            } else {
                srv.gate.continue_inner(op_a);
            }
            a_steps += 1;
            let t0 = Instant::now();
            loop {
                let o = srv.gate.snapshot()[op_a].clone();
                if o.done {
                    a_done = true;
                    srv.gate.release_after(op_a);
                    break;
                }
                if o.at_inner {
                    break;
                }
                if !stall_used && crate::iohook::stall_reached() {
                    a_stalled = true;
                    break;
                }
                if t0.elapsed() > T20 {
                    return Err(("store-call-hangs".into(), format!("{} neither finished nor reached its next hook point within 6 s", a_req.show())));
                }
                std::thread::sleep(Duration::from_micros(100));
            }
            if a_steps > 40 {
                return Err(mach("more than 40 hook points in one command"));
            }
        }
        let rec = srv.gate.snapshot()[op_a].clone();
        let store_failed = rec.result == Some(LRes::Pending);
        // what A is told
        a.shutdown(NetShutdown::Write).ok();
        let (bytes, how) = read_to_end(&mut a, T20);
        if how == "timeout" {
            return Err(("failed-command-neither-answered-nor-closed".into(), format!("{}: its store call failed, 6 s later the connection is still open without a reply", a_req.show())));
        }
        let acked = bytes.starts_with(b"+") || bytes.starts_with(b":");
        if store_failed && acked {
            return Err(("failed-command-acknowledged".into(), format!("{}: the store call failed (EIO), the client received {:?}", a_req.show(), String::from_utf8_lossy(&bytes))));
        }
        if !store_failed {
            // nothing was failed for this command (it makes no file-system call): an ordinary run
            events.push(LEvent { op: a_lop.clone(), res: rec.result.clone().unwrap_or(LRes::Pending), inv: rec.entered, ret: rec.exited });
        } else {
            events.push(LEvent { op: a_lop.clone(), res: LRes::Pending, inv: rec.entered, ret: rec.exited });
        }
        // a last read, after everything
        srv.gate.set_fault_prefix(None);
        run_get(&mut b, &mut events, &mut reads)?;
        if linearizable(&init, &events).is_none() {
            return Err(("history-with-a-failed-command-not-linearizable".into(), format!("initially k = '0'; {} whose store call fails with EIO (A was told {:?}), stepped through {} hook points; GET k before step {} and before step {} and at the end read {:?}: no single order explains this with the failed command taking effect once or not at all", a_req.show(), String::from_utf8_lossy(&bytes), a_steps, p1, p2, reads)));
        }
        Ok(format!("fault:{}:{}:{}", which, if store_failed { "failed" } else { "not-failed" }, reads.join(",")))
    })();
    srv.gate.set_fault_prefix(None);
    srv.gate.set_fault_stall(false);
    crate::iohook::stall_release();
    srv.gate.release_all();
    let stopped = srv.stop();
    let o = r?;
    if !stopped {
        return Err(mach("server did not stop"));
    }
    Ok(o)
}

/// C20 at the server: `DEL a b c` (all present) where the store call for one of the keys fails.
/// Whatever the client is told, an ACKNOWLEDGED command must read correctly afterwards: an integer
/// reply means every named key is gone. The other keys are untouched, the server keeps serving.
pub fn c20_server_case(dir: &Path, cmd: usize, fail_key: usize) -> Result<String, V> {
    crate::iohook::grec_start(&dir.to_string_lossy(), false);
    let r = (|| -> Result<String, V> {
        let srv = Srv::start(dir, &SrvCfg { max_connections: 8, max_file_size: 1 << 31, gated: false }).map_err(mach)?;
        let r = (|| -> Result<String, V> {
            let keys: Vec<Vec<u8>> = vec![b"a".to_vec(), b"b".to_vec(), b"c".to_vec()];
            let mut model = Kv::new();
            for k in keys.iter().chain([b"other".to_vec()].iter()) {
                srv.handle.set(Bytes::from(k.clone()), Bytes::from_static(b"v")).map_err(|e| mach(e.to_string()))?;
                model.insert(k.clone(), b"v".to_vec());
            }
            let (req, named): (Req, Vec<Vec<u8>>) = match cmd {
                0 => (Req::Del(keys.clone()), keys.clone()),
                1 => (Req::Del(vec![keys[0].clone(), keys[1].clone()]), vec![keys[0].clone(), keys[1].clone()]),
                2 => (Req::Del(vec![keys[fail_key % 3].clone()]), vec![keys[fail_key % 3].clone()]),
                _ => (Req::Set(keys[fail_key % 3].clone(), b"w".to_vec()), vec![keys[fail_key % 3].clone()]),
            };
            let fk = &keys[fail_key % 3];
            srv.gate.set_fault_prefix(Some(if cmd == 3 { format!("set {}", hex(fk)) } else { format!("del {}", hex(fk)) }));
            let mut c = srv.connect().map_err(|e| mach(format!("connect: {}", e)))?;
            c.write_all(&req.encode()).map_err(|e| mach(e.to_string()))?;
            c.shutdown(NetShutdown::Write).ok();
            let (bytes, how) = read_to_end(&mut c, T20);
            srv.gate.set_fault_prefix(None);
            if how == "timeout" {
                return Err(("failed-command-neither-answered-nor-closed".into(), format!("{} with a failing store call for {}: no end of stream within 6 s", req.show(), hex(fk))));
            }
            let failed_any = srv.gate.snapshot().iter().any(|o| o.result == Some(LRes::Pending));
            let acked = bytes.starts_with(b":") || bytes.starts_with(b"+");
            let contents = srv.store_contents(&[keys.clone(), vec![b"other".to_vec()]].concat());
            if acked {
                // an acknowledged command reads correctly: every key it names has the state it asked for
                for k in &named {
                    let ok = if cmd == 3 { contents.get(k) == Some(&b"w".to_vec()) } else { !contents.contains_key(k) };
                    if !ok {
                        return Err(("acknowledged-command-does-not-read-correctly".into(), format!("{} was answered {:?} although the store call for {} failed (EIO); afterwards {} reads {:?}", req.show(), String::from_utf8_lossy(&bytes), hex(fk), hex(k), contents.get(k).map(|v| hex(v)))));
                    }
                }
            }
            // keys the command does not name are untouched; named keys hold their old or their new state
            if contents.get(&b"other".to_vec()) != Some(&b"v".to_vec()) {
                return Err(("failed-command-affects-another-key".into(), format!("{}: key 'other' reads {:?}", req.show(), contents.get(&b"other".to_vec()).map(|v| hex(v)))));
            }
            for k in &keys {
                let v = contents.get(k);
                let legal = if named.contains(k) { v.is_none() || v == Some(&b"v".to_vec()) || (cmd == 3 && v == Some(&b"w".to_vec())) } else { v == Some(&b"v".to_vec()) };
                if !legal {
                    return Err(("failed-command-affects-another-key".into(), format!("{}: key {} reads {:?}", req.show(), hex(k), v.map(|x| hex(x)))));
                }
            }
            // the server keeps serving, and says the truth
            let mut c2 = srv.connect().map_err(|e| mach(format!("connect: {}", e)))?;
            c2.write_all(&Req::Set(b"after".to_vec(), b"1".to_vec()).encode()).map_err(|e| mach(e.to_string()))?;
            c2.write_all(&Req::Get(b"after".to_vec()).encode()).map_err(|e| mach(e.to_string()))?;
            let (got, how2) = read_n(&mut c2, b"+OK\r\n$1\r\n1\r\n".len(), T20);
            if got != b"+OK\r\n$1\r\n1\r\n" {
                return Err(("server-unusable-after-a-failed-command".into(), format!("after {} with a failing store call: SET after 1; GET after -> {:?} ({})", req.show(), String::from_utf8_lossy(&got), how2)));
            }
            Ok(format!("c20srv:{}:{}:{}", cmd, if failed_any { "failed" } else { "nothing-failed" }, if acked { "acked" } else { "not-acked" }))
        })();
        let stopped = srv.stop();
        let o = r?;
        if !stopped {
            return Err(mach("server did not stop"));
        }
        Ok(o)
    })();
    crate::iohook::grec_stop();
    r
}

pub fn c20_server(job: &Job, sh: &mut Shard, t0: Instant) {
    let dir = job.scratch().join("store");
    let mut i = 0usize;
    for cmd in 0..4usize {
        for fail_key in 0..3usize {
            if cmd == 1 && fail_key == 2 {
                continue;
            }
            i += 1;
            if i % job.nshards != job.shard {
                continue;
            }
            if t0.elapsed().as_secs() > job.deadline_s {
                sh.capped = true;
                return;
            }
            let case = json!({"engine": "net", "kind": "c20srv", "cmd": cmd, "fail_key": fail_key});
            job.progress(&case);
            sh.evaluations += 1;
            sh.transitions += 4;
            sh.states.insert(fnv(format!("c20srv{}{}", cmd, fail_key).as_bytes()));
            sh.nontrivial.insert(fnv(format!("c20srv{}{}", cmd, fail_key).as_bytes()));
            match c20_server_case(&dir, cmd, fail_key) {
                Ok(o) => sh.outcome(o),
                Err((c, msg)) if c == "MACHINERY" => sh.machinery_errors.push(format!("C20 server case {} {}: {}", cmd, fail_key, msg)),
                Err((c, msg)) => match c20_server_case(&dir, cmd, fail_key) {
                    Err((c2, _)) if c2 == c => sh.violate(Violation { class: format!("C20:{}", c), msg, case }),
                    other => sh.machinery_errors.push(format!("C20 violation {} not reproduced ({:?}): {}", c, other.map_err(|e| e.0), msg)),
                },
            }
        }
    }
}

fn frame_lres(f: &RFrame, op: &LOp) -> LRes {
    match (f, op) {
        (RFrame::Simple(s), LOp::Set(..)) if s == b"OK" => LRes::Unit,
        (RFrame::Bulk(b), LOp::Get(_)) => LRes::Val(Some(b.clone())),
        (RFrame::Null, LOp::Get(_)) => LRes::Val(None),
        (RFrame::Integer(i), LOp::Del(_)) => LRes::Bool(*i == 1),
        // anything else can never be explained by the model
        _ => LRes::Val(Some(b"<<reply of the wrong type>>".to_vec())),
    }
}

fn programs(alpha: &[Req], maxlen: usize) -> Vec<Vec<Req>> {
    let mut out = vec![];
    let mut frontier: Vec<Vec<Req>> = vec![vec![]];
    for _ in 0..maxlen {
        let mut next = vec![];
        for w in &frontier {
            for a in alpha {
                let mut w2 = w.clone();
                w2.push(a.clone());
                next.push(w2);
            }
        }
        out.extend(next.iter().cloned());
        frontier = next;
    }
    out
}

fn c11_cases(tier: Tier) -> Vec<(Vec<Vec<Req>>, Vec<usize>, u64, bool, u8)> {
    let mut cases = vec![];
    // 2 clients x <=2 commands over the reduced alphabet (quick) / full alphabet (thorough)
    let p2 = programs(&c11_alphabet(true), 2);
    for a in &p2 {
        for b in &p2 {
            for ord in interleavings(&[a.len() * 2, b.len() * 2]) {
                cases.push((vec![a.clone(), b.clone()], ord, 1u64 << 31, false, 0));
            }
        }
    }
    // 3 clients x 1 command over the full alphabet
    let p1 = programs(&c11_alphabet(true), 1);
    for a in &p1 {
        for b in &p1 {
            for c in &p1 {
                for ord in interleavings(&[2, 2, 2]) {
                    cases.push((vec![a.clone(), b.clone(), c.clone()], ord, 1u64 << 31, false, 0));
                }
            }
        }
    }
    // "while merges and rollovers occur": rollover at every write, a merge after every store entry
    let pm = programs(&c11_alphabet(false), tier.pick(1, 2));
    for a in &pm {
        for b in &pm {
            for ord in interleavings(&[a.len() * 2, b.len() * 2]) {
                cases.push((vec![a.clone(), b.clone()], ord, 0, true, 0));
            }
        }
    }
    // inner gate: SET / DEL are also held inside the store call, right before they queue for the
    // writer lock (a look at the index before that point and the update after it can be separated
    // by whole operations of the other client). Events per command: enter, continue (writes), return.
    let ev = |p: &Vec<Req>| p.iter().map(|r| if matches!(r, Req::Get(_)) { 2 } else { 3 }).sum::<usize>();
    let pa = programs(&c11_alphabet(true), 2);
    let pb = programs(&c11_alphabet(true), tier.pick(1, 2));
    let mut seen = std::collections::HashSet::new();
    for (x, y) in pa.iter().flat_map(|a| pb.iter().map(move |b| (a, b))).chain(pb.iter().flat_map(|a| pa.iter().map(move |b| (a, b)))) {
        if !seen.insert(format!("{:?}|{:?}", x, y)) {
            continue;
        }
        // only writes have the third event: programs without any write are covered above
        if ev(x) == x.len() * 2 && ev(y) == y.len() * 2 {
            continue;
        }
        for ord in interleavings(&[ev(x), ev(y)]) {
            cases.push((vec![x.clone(), y.clone()], ord, 1u64 << 31, false, 1));
        }
    }
    // three writers of one key, one command each
    let pw: Vec<Vec<Req>> = programs(&c11_alphabet(true), 1).into_iter().filter(|p| ev(p) == 3).collect();
    for a in &pw {
        for b in &pw {
            for c in &pw {
                for ord in interleavings(&[3, 3, 3]) {
                    cases.push((vec![a.clone(), b.clone(), c.clone()], ord, 1u64 << 31, false, 1));
                }
            }
        }
    }
    // the same with rollover at every write and a merge after every completed store call
    let pm1 = programs(&c11_alphabet(false), 1);
    for a in &pm1 {
        for b in &pm1 {
            if ev(a) + ev(b) == 4 {
                continue;
            }
            for ord in interleavings(&[ev(a), ev(b)]) {
                cases.push((vec![a.clone(), b.clone()], ord, 0, true, 1));
            }
        }
    }
    // real contention on the KeyDir shard of k while one client's command needs it (seven commands)
    for w in 0..7usize {
        cases.push((vec![vec![]], vec![w], 1u64 << 31, false, 4));
    }
    // a command whose store call FAILS (EIO on every file-system call it makes) while another client
    // reads the key twice, before each pair of hook points of the failing command
    for which in 0..2usize {
        for p1 in 0..=6usize {
            for p2 in p1..=7usize {
                cases.push((vec![vec![]], vec![which, p1, p2], 1u64 << 31, false, 5));
            }
        }
    }
    // every hook point inside the store (before the writer lock and before each KeyDir shard access):
    // 2 clients x 1 command over the full alphabet, from an empty store and from k = "0"; events per
    // command: enter, 3 x continue (2 for GET), return
    let evn = |p: &Vec<Req>| p.iter().map(|r| if matches!(r, Req::Get(_)) { 4 } else { 5 }).sum::<usize>();
    let p1 = programs(&c11_alphabet(true), 1);
    for a in &p1 {
        for b in &p1 {
            for ord in interleavings(&[evn(a), evn(b)]) {
                cases.push((vec![a.clone(), b.clone()], ord.clone(), 1u64 << 31, false, 2));
                cases.push((vec![a.clone(), b.clone()], ord, 1u64 << 31, false, 3));
            }
        }
    }
    if tier == Tier::Thorough {
        // one client with two commands against one with one command, over {SET k 1, GET k, DEL k}
        let p2: Vec<Vec<Req>> = programs(&c11_alphabet(false), 2).into_iter().filter(|p| p.len() == 2).collect();
        let p1r = programs(&c11_alphabet(false), 1);
        for a in &p2 {
            for b in &p1r {
                for ord in interleavings(&[evn(a), evn(b)]) {
                    cases.push((vec![a.clone(), b.clone()], ord, 1u64 << 31, false, 3));
                }
            }
        }
    }
    if tier == Tier::Thorough {
        // 3 clients x <= 2 commands over {SET k 1, GET k}
        let p = programs(&c11_alphabet(false)[..2], 2);
        for a in &p {
            for b in &p {
                for c in &p {
                    if a.len() + b.len() + c.len() > 5 {
                        continue;
                    }
                    for ord in interleavings(&[a.len() * 2, b.len() * 2, c.len() * 2]) {
                        cases.push((vec![a.clone(), b.clone(), c.clone()], ord, 1u64 << 31, false, 0));
                    }
                }
            }
        }
    }
    cases
}

fn c11_run(dir: &Path, progs: &[Vec<Req>], ord: &[usize], mfs: u64, merge: bool, inner: u8) -> Result<String, V> {
    match inner {
        2 => c11_case_all(dir, progs, ord, false),
        3 => c11_case_all(dir, progs, ord, true),
        4 => c11_shard_case(dir, ord.first().cloned().unwrap_or(0)),
        5 => c11_fault_case(dir, ord.first().cloned().unwrap_or(0), ord.get(1).cloned().unwrap_or(0), ord.get(2).cloned().unwrap_or(0)),
        m => c11_case(dir, progs, ord, mfs, merge, m == 1),
    }
}

pub fn c11(job: &Job, sh: &mut Shard, t0: Instant) {
    let cases = c11_cases(job.tier);
    let dir = job.scratch().join("store");
    let total = cases.len();
    for (i, (progs, ord, mfs, merge, inner)) in cases.into_iter().enumerate() {
        if i % job.nshards != job.shard {
            continue;
        }
        if t0.elapsed().as_secs() > job.deadline_s || sh.viol_counts.values().sum::<u64>() >= 6 {
            sh.capped = true;
            sh.notes.insert(format!("stopped (time cap or 6 violations in this shard) after {} of {} cases", i, total));
            return;
        }
        let case = json!({"engine": "net", "kind": "c11", "programs": progs.iter().map(|p| p.iter().map(|r| r.to_json()).collect::<Vec<_>>()).collect::<Vec<_>>(), "programs_text": progs.iter().map(|p| p.iter().map(|r| r.show()).collect::<Vec<_>>()).collect::<Vec<_>>(), "order": ord, "max_file_size": mfs, "merge": merge, "inner": inner});
        if i % 16 == job.shard % 16 {
            job.progress(&case);
        }
        sh.evaluations += 1;
        sh.transitions += ord.len() as u64;
        sh.nontrivial.insert(fnv(format!("{:?}{:?}{}{}", progs, ord, merge, inner).as_bytes()));
        let mut pre = vec![];
        for o in &ord {
            pre.push(*o);
            sh.states.insert(fnv(format!("{:?}{:?}{}{}", progs, pre, merge, inner).as_bytes()));
        }
        match c11_run(&dir, &progs, &ord, mfs, merge, inner) {
            Ok(o) => sh.outcome(o),
            Err((c, msg)) if c == "MACHINERY" => sh.machinery_errors.push(format!("C11 {} {}", msg, case["programs_text"])),
            Err((c, msg)) => match c11_run(&dir, &progs, &ord, mfs, merge, inner) {
                Err((c2, _)) if c2 == c => sh.violate(Violation { class: format!("C11:{}", c), msg: format!("{} | programs {} order {:?} merge {} inner-gate {}", msg, case["programs_text"], ord, merge, inner), case }),
                other => sh.machinery_errors.push(format!("C11 violation {} not reproduced ({:?}): {}", c, other.map_err(|e| e.0), msg)),
            },
        }
        if sh.samples.len() < 2 && i % 499 == job.shard {
            sh.samples.push(json!({"programs": progs.iter().map(|p| p.iter().map(|r| r.show()).collect::<Vec<_>>()).collect::<Vec<_>>(), "order(client per event; each client's events alternate enter-store / return+reply)": ord}));
        }
    }
}

// =============================================================================================
// C16 — graceful shutdown
// =============================================================================================

#[derive(Clone, Debug, PartialEq, Eq)]
pub enum CState {
    Idle0,
    Idle1,
    Prefix(usize),
    HeldBefore,
    HeldAfter,
    Pipelined,
    ReplyStalled,
    /// connected and a full request sent, but never accepted: the server runs with max_connections 1
    /// and another connection holds the slot
    Queued,
    /// connections whose handler ended BEFORE the signal: after garbage (the server closed it), after a
    /// panic in the handler task, after the client closed; and one whose accept failed a moment before
    /// the signal (the listener is in its back-off sleep)
    EndedBad,
    EndedPanic,
    EndedClosed,
    AcceptFailed,
    /// a client that never pauses: one command is held in the store when the signal fires, 16 more
    /// requests are already on the wire, and after the release the client keeps at least 16
    /// requests ahead of the replies it has read for as long as the server answers
    Streaming,
}

/// A server that still answers this many requests of one connection after the shutdown signal is
/// not going to stop while that client keeps sending ("within bounded time, whatever the clients
/// are doing"). The pinned code leaves the loop with probability 1/2 per request.
const STREAM_LIMIT: usize = 2000;
const STREAM_AHEAD: usize = 16;

const BIG_REPLY: usize = 8 * 1024 * 1024;

fn set_req(i: usize) -> Req {
    Req::Set(format!("s{}", i).into_bytes(), b"val".to_vec())
}

/// After-shutdown events of one connection in a given state.
fn pending_events(st: &CState) -> Vec<&'static str> {
    match st {
        CState::HeldBefore => vec!["release_before", "release_after"],
        CState::HeldAfter => vec!["release_after"],
        CState::Pipelined => vec!["release_before", "release_after"],
        CState::ReplyStalled => vec!["resume_reading"],
        CState::Streaming => vec!["stream"],
        _ => vec![],
    }
}

/// `at_limit`: the server runs with max_connections equal to the number of connections of the case,
/// so the listener is parked waiting for a slot (not in accept) when the signal fires.
pub fn c16_case(dir: &Path, states: &[CState], order: &[usize], at_limit: bool) -> Result<String, V> {
    crate::iohook::accept_abort_clear();
    let maxc = if states.contains(&CState::Queued) { 1 } else if at_limit { states.len() } else { 8 };
    let mut srv = Srv::start(dir, &SrvCfg { max_connections: maxc, max_file_size: 1 << 31, gated: true }).map_err(mach)?;
    let nc = states.len();
    let mut socks: Vec<TcpStream> = vec![];
    let mut held_op: Vec<Option<usize>> = vec![None; nc];
    let mut expect_replies: Vec<Vec<RFrame>> = vec![vec![]; nc]; // replies that MUST arrive
    let mut received: Vec<Vec<u8>> = vec![vec![]; nc];
    let mut next_ev: Vec<usize> = vec![0; nc];
    let mut was_reset: Vec<bool> = vec![false; nc];
    let r = (|| -> Result<String, V> {
        if states.contains(&CState::ReplyStalled) {
            srv.handle.set(Bytes::from_static(b"big"), Bytes::from(vec![b'R'; BIG_REPLY])).map_err(|e| mach(e.to_string()))?;
        }
        // drive every connection into its state
        for (c, st) in states.iter().enumerate() {
            let clones_before = srv.gate.clones();
            let mut s = srv.connect().map_err(|e| mach(format!("connect: {}", e)))?;
            let e0 = srv.epoch();
            match st {
                CState::Idle0 => {}
                CState::Queued => {
                    s.write_all(&set_req(c).encode()).map_err(|e| mach(e.to_string()))?;
                }
                CState::Idle1 => {
                    let n0 = srv.gate.n_ops();
                    s.write_all(&Req::Set(format!("i{}", c).into_bytes(), b"1".to_vec()).encode()).map_err(|e| mach(e.to_string()))?;
                    if !srv.gate.wait_arrivals(n0 + 1, T20) {
                        return Err(mach("setup: command did not arrive"));
                    }
                    srv.gate.release_before(n0);
                    srv.gate.release_after(n0);
                    match read_frame(&mut s, T20) {
                        Ok((RFrame::Simple(_), b)) => received[c].extend_from_slice(&b),
                        o => return Err(mach(format!("setup: no OK for the first command: {:?}", o.map(|x| x.0)))),
                    }
                }
                CState::Prefix(j) => {
                    let b = set_req(c).encode();
                    s.write_all(&b[..*j]).map_err(|e| mach(e.to_string()))?;
                }
                CState::EndedBad => {
                    s.write_all(b"!garbage, not RESP\r\n").map_err(|e| mach(e.to_string()))?;
                    let (b, how) = read_to_end(&mut s, T20);
                    received[c].extend_from_slice(&b);
                    if how == "timeout" {
                        return Err(mach("setup: the server did not close a connection that sent garbage"));
                    }
                }
                CState::EndedPanic => {
                    if !srv.gate.wait_clones(clones_before + 1, T20) {
                        return Err(mach("setup: connection not accepted"));
                    }
                    srv.quiesce(e0);
                    srv.gate.arm_clone_panic(1);
                    s.write_all(&set_req(c).encode()).map_err(|e| mach(e.to_string()))?;
                    let (b, how) = read_to_end(&mut s, T20);
                    received[c].extend_from_slice(&b);
                    if how == "timeout" {
                        return Err(mach("setup: the connection whose handler panicked stayed open"));
                    }
                }
                CState::EndedClosed => {
                    let n0 = srv.gate.n_ops();
                    s.write_all(&Req::Set(format!("i{}", c).into_bytes(), b"1".to_vec()).encode()).map_err(|e| mach(e.to_string()))?;
                    if !srv.gate.wait_arrivals(n0 + 1, T20) {
                        return Err(mach("setup: command did not arrive"));
                    }
                    srv.gate.release_before(n0);
                    srv.gate.release_after(n0);
                    match read_frame(&mut s, T20) {
                        Ok((RFrame::Simple(_), b)) => received[c].extend_from_slice(&b),
                        o => return Err(mach(format!("setup: no OK for the first command: {:?}", o.map(|x| x.0)))),
                    }
                    s.shutdown(NetShutdown::Both).ok();
                }
                CState::AcceptFailed => {
                    // replaced below by a connection whose accept fails; the signal follows at once
                }
                CState::HeldBefore | CState::HeldAfter | CState::Pipelined | CState::Streaming => {
                    let n0 = srv.gate.n_ops();
                    let mut b = set_req(c).encode();
                    if *st == CState::Pipelined {
                        b.extend_from_slice(&Req::Get(format!("s{}", c).into_bytes()).encode());
                    }
                    if *st == CState::Streaming {
                        for _ in 0..STREAM_AHEAD {
                            b.extend_from_slice(&Req::Set(format!("t{}", c).into_bytes(), b"x".to_vec()).encode());
                        }
                    }
                    s.write_all(&b).map_err(|e| mach(e.to_string()))?;
                    if !srv.gate.wait_arrivals(n0 + 1, T20) {
                        return Err(mach("setup: command did not arrive"));
                    }
                    held_op[c] = Some(n0);
                    if *st == CState::HeldAfter {
                        srv.gate.release_before(n0);
                        if !srv.gate.wait_done(n0, T20) {
                            return Err(mach("setup: store call did not finish"));
                        }
                    }
                }
                CState::ReplyStalled => {
                    let n0 = srv.gate.n_ops();
                    s.write_all(&Req::Get(b"big".to_vec()).encode()).map_err(|e| mach(e.to_string()))?;
                    if !srv.gate.wait_arrivals(n0 + 1, T20) {
                        return Err(mach("setup: command did not arrive"));
                    }
                    srv.gate.release_before(n0);
                    srv.gate.release_after(n0);
                    // the client does not read: the server blocks in the middle of writing the reply
                }
            }
            socks.push(s);
            if !srv.quiesce(e0) {
                return Err(mach("setup: no quiescence"));
            }
        }
        // connections whose accept fails: made right before the signal, which then finds the listener
        // in (or just past) its back-off sleep
        let mut aborted: Vec<TcpStream> = vec![];
        for st in states.iter() {
            if *st == CState::AcceptFailed {
                if let Ok(mut x) = srv.connect_to_be_aborted() {
                    let _ = x.write_all(&Req::Get(b"zz".to_vec()).encode());
                    aborted.push(x);
                }
            }
        }
        // fire the shutdown signal
        let e0 = srv.epoch();
        srv.fire_shutdown();
        if !srv.quiesce(e0) {
            return Err(mach("no quiescence after the shutdown signal"));
        }
        // a client that arrives after the signal: the server has stopped, it is never served
        let mut late: Option<TcpStream> = srv.connect().ok();
        if let Some(l) = late.as_mut() {
            let _ = l.write_all(&Req::Set(b"late".to_vec(), b"val".to_vec()).encode());
            srv.quiesce(srv.epoch());
        }
        // however long the connections take: ten minutes pass for the server thread (timers it
        // sleeps on fire; the pinned server waits for its connections without any timer)
        for _ in 0..3 {
            srv.let_time_pass(200_000);
        }
        let busy = |held_op: &Vec<Option<usize>>, next_ev: &Vec<usize>| states.iter().enumerate().any(|(c, st)| next_ev[c] < pending_events(st).len() && (held_op[c].is_some() || *st == CState::ReplyStalled));
        let _ = &was_reset;
        // while a command is in flight, run() must not have returned and its client must not see a reply or a close
        if busy(&held_op, &next_ev) && srv.run_returned.load(Ordering::SeqCst) {
            return Err(("run-returned-while-a-command-was-in-flight".into(), format!("states {:?}", states)));
        }
        for (c, st) in states.iter().enumerate() {
            if matches!(st, CState::HeldBefore | CState::HeldAfter | CState::Pipelined | CState::Streaming) {
                let (b, eof, err) = try_read(&mut socks[c]);
                if !b.is_empty() || eof || err.is_some() {
                    return Err(("connection-torn-while-its-command-was-in-flight".into(), format!("client {} in state {:?}: bytes {:?} eof {} err {:?} right after the shutdown signal", c, st, String::from_utf8_lossy(&b), eof, err)));
                }
            }
        }
        // remaining events in the given order
        for &c in order {
            let evs = pending_events(&states[c]);
            let ev = evs[next_ev[c]];
            next_ev[c] += 1;
            let e0 = srv.epoch();
            match ev {
                "release_before" => {
                    let op = held_op[c].unwrap();
                    srv.gate.release_before(op);
                    if !srv.gate.wait_done(op, T20) {
                        return Err(("store-call-hangs".into(), "released command did not finish".into()));
                    }
                }
                "release_after" => {
                    let op = held_op[c].unwrap();
                    if states[c] == CState::Pipelined {
                        // the server may go on to the pipelined GET (un-owned select! bit): whenever it
                        // arrives at the gate it passes, so the handler can never be left waiting there
                        srv.gate.auto_release_prefix(format!("get {}", hex(format!("s{}", c).as_bytes())));
                    }
                    srv.gate.release_after(op);
                    // the command was executed: its reply (+OK, 5 bytes) must arrive, complete; a
                    // pipelined second reply may follow at once and is collected at the end
                    let (b5, how) = read_n(&mut socks[c], 5, T20);
                    received[c].extend_from_slice(&b5);
                    match resp_decode(&b5, 0) {
                        Ok((f, 5)) => expect_replies[c].push(f),
                        _ => return Err(("executed-command-not-answered".into(), format!("client {} ({:?}): the held command was executed and released after the shutdown signal, but its reply: {} after {:?}", c, states[c], how, String::from_utf8_lossy(&b5)))),
                    }
                    held_op[c] = None;
                    // a pipelined second request may or may not be served (un-owned select! bit): let it through
                    if states[c] == CState::Pipelined {
                        srv.quiesce(e0);
                    }
                }
                "stream" => {
                    let op = held_op[c].unwrap();
                    srv.gate.auto_release_prefix(format!("set {}", hex(format!("t{}", c).as_bytes())));
                    srv.gate.release_before(op);
                    srv.gate.release_after(op);
                    held_op[c] = None;
                    let req = Req::Set(format!("t{}", c).into_bytes(), b"x".to_vec()).encode();
                    socks[c].set_nonblocking(true).map_err(|e| mach(e.to_string()))?;
                    let mut sent = 1 + STREAM_AHEAD;
                    let mut part: Vec<u8> = vec![]; // unsent rest of a request
                    let mut buf = vec![0u8; 65536];
                    let t0 = Instant::now();
                    let mut last_progress = Instant::now();
                    let mut write_dead = false;
                    let outcome = loop {
                        match socks[c].read(&mut buf) {
                            Ok(0) => break "eof",
                            Ok(k) => {
                                received[c].extend_from_slice(&buf[..k]);
                                last_progress = Instant::now();
                            }
                            Err(e) if e.kind() == std::io::ErrorKind::WouldBlock => {}
                            Err(_) => break "reset",
                        }
                        let nrep = received[c].iter().filter(|b| **b == b'\n').count();
                        if nrep > STREAM_LIMIT {
                            break "limit";
                        }
                        while !write_dead && sent < nrep + STREAM_AHEAD {
                            if part.is_empty() {
                                part = req.clone();
                            }
                            match socks[c].write(&part) {
                                Ok(k) => {
                                    part.drain(..k);
                                    if part.is_empty() {
                                        sent += 1;
                                    }
                                }
                                Err(e) if e.kind() == std::io::ErrorKind::WouldBlock => break,
                                Err(_) => write_dead = true,
                            }
                        }
                        if last_progress.elapsed() > T20 || t0.elapsed() > Duration::from_secs(60) {
                            break "stalled";
                        }
                        std::thread::yield_now();
                    };
                    socks[c].set_nonblocking(false).ok();
                    let nrep = received[c].iter().filter(|b| **b == b'\n').count();
                    match outcome {
                        "limit" => return Err(("keeps-serving-a-busy-client-after-the-signal".into(), format!("client {} kept {} requests ahead of the replies it had read; the server answered {} requests after the shutdown signal and run() has {}returned", c, STREAM_AHEAD, nrep, if srv.run_returned.load(Ordering::SeqCst) { "" } else { "not " }))),
                        "reset" => was_reset[c] = true,
                        "stalled" => return Err(("run-does-not-return".into(), format!("client {} (streaming): neither a reply nor an end of stream for 6 s after {} replies", c, nrep))),
                        _ => {}
                    }
                    // the held SET was executed before the stream went on: its +OK must be the first reply
                    if !received[c].starts_with(b"+OK\r\n") {
                        return Err(("executed-command-not-answered".into(), format!("client {} (streaming): the held command was executed but the stream starts with {:?}", c, String::from_utf8_lossy(&received[c][..received[c].len().min(20)]))));
                    }
                }
                "resume_reading" => {
                    let (b, how) = read_to_end(&mut socks[c], T20);
                    received[c].extend_from_slice(&b);
                    if how == "timeout" {
                        return Err(("stalled-reply-never-completes".into(), format!("client {} resumed reading but the stream did not end within 6 s ({} bytes)", c, received[c].len())));
                    }
                }
                _ => unreachable!(),
            }
            if busy(&held_op, &next_ev) {
                srv.quiesce(e0);
                if srv.run_returned.load(Ordering::SeqCst) {
                    return Err(("run-returned-while-a-command-was-in-flight".into(), format!("states {:?} after events {:?}", states, order)));
                }
            }
        }
        // everything is released: run() must return
        if !srv.wait_returned(T20) {
            return Err(("run-does-not-return".into(), format!("run() did not return within 6 s after the shutdown signal; states {:?}", states)));
        }
        if let Some(mut l) = late.take() {
            let (b, how) = read_to_end(&mut l, T20);
            if !b.is_empty() || how == "timeout" {
                return Err(("served-a-connection-that-arrived-after-the-signal".into(), format!("a client that connected after the shutdown signal received {:?} ({})", String::from_utf8_lossy(&b), how)));
            }
            if srv.handle.get(Bytes::from_static(b"late")).map_err(|e| mach(e.to_string()))?.is_some() {
                return Err(("served-a-connection-that-arrived-after-the-signal".into(), "the SET of a client that connected after the shutdown signal was applied".into()));
            }
        }
        // every client's stream: complete replies followed by end-of-stream
        let mut summary = vec![];
        for c in 0..nc {
            let (b, how) = read_to_end(&mut socks[c], T20);
            received[c].extend_from_slice(&b);
            if how == "timeout" {
                return Err(("connection-left-open-after-shutdown".into(), format!("client {} ({:?}) saw no end of stream 6 s after run() returned", c, states[c])));
            }
            let (frames, rest, bad) = resp_split(&received[c]);
            // a server that closes a connection with unread requests makes the kernel reset it, and a
            // reset may cut what was in flight: only a stream that ended cleanly is judged for tearing
            let cut_by_reset = states[c] == CState::Streaming && (was_reset[c] || how == "reset");
            if (!rest.is_empty() || bad) && !cut_by_reset {
                return Err(("torn-reply".into(), format!("client {} ({:?}) received {} complete replies followed by {} bytes of a partial one ({:?}...)", c, states[c], frames.len(), rest.len(), String::from_utf8_lossy(&rest[..rest.len().min(30)]))));
            }
            if states[c] == CState::ReplyStalled {
                let ok = frames.is_empty() || frames == vec![RFrame::Bulk(vec![b'R'; BIG_REPLY])];
                if !ok {
                    return Err(("torn-reply".into(), format!("client {} received a wrong large reply ({} frames)", c, frames.len())));
                }
            }
            summary.push(if states[c] == CState::Streaming { format!("Streaming:{}", if frames.len() > 1 { "1+r" } else { "1r" }) } else { format!("{:?}:{}r", states[c], frames.len()) });
            // acknowledged commands are reflected in the store
            let key = format!("s{}", c).into_bytes();
            let in_store = srv.handle.get(Bytes::from(key.clone())).map_err(|e| mach(e.to_string()))?;
            let acked = frames.iter().any(|f| matches!(f, RFrame::Simple(s) if s == b"OK")) && matches!(states[c], CState::HeldBefore | CState::HeldAfter | CState::Pipelined | CState::Streaming);
            if states[c] == CState::Streaming && frames.len() > 1 {
                let k = format!("t{}", c).into_bytes();
                if srv.handle.get(Bytes::from(k)).ok().flatten().as_deref() != Some(&b"x"[..]) {
                    return Err(("acknowledged-command-not-in-the-store".into(), format!("client {}: {} SETs of the stream were acknowledged but the key is missing", c, frames.len() - 1)));
                }
            }
            if acked && in_store.as_deref() != Some(&b"val"[..]) {
                return Err(("acknowledged-command-not-in-the-store".into(), format!("client {} got +OK for SET {} but the store has {:?}", c, hex(&key), in_store)));
            }
            if let Some(v) = &in_store {
                if &v[..] != b"val" {
                    return Err(("partially-applied-command".into(), format!("key {} holds {:?}", hex(&key), v)));
                }
            }
            if matches!(states[c], CState::Prefix(_)) && in_store.is_some() {
                return Err(("incomplete-request-was-applied".into(), format!("client {} sent only a prefix of SET {} but the key exists", c, hex(&key))));
            }
            if states[c] == CState::Queued && (in_store.is_some() || !frames.is_empty()) {
                return Err(("never-accepted-connection-was-served".into(), format!("client {} was waiting for a slot when the shutdown fired, yet its SET {} was applied / answered ({} replies)", c, hex(&key), frames.len())));
            }
            if states[c] == CState::Idle1 {
                let k = format!("i{}", c).into_bytes();
                if srv.handle.get(Bytes::from(k)).ok().flatten().as_deref() != Some(&b"1"[..]) {
                    return Err(("acknowledged-command-not-in-the-store".into(), format!("client {}: SET acknowledged before the shutdown is missing", c)));
                }
            }
        }
        Ok(summary.join(" "))
    })();
    let stopped = srv.stop();
    let o = r?;
    if !stopped {
        return Err(("run-does-not-return".into(), "run() did not return".into()));
    }
    Ok(o)
}

fn c16_states(tier: Tier) -> Vec<CState> {
    let mut v = vec![CState::Idle0, CState::Idle1, CState::HeldBefore, CState::HeldAfter, CState::Pipelined, CState::ReplyStalled, CState::Streaming, CState::EndedBad, CState::EndedPanic, CState::EndedClosed, CState::AcceptFailed];
    let n = set_req(0).encode().len();
    let pts: Vec<usize> = if tier == Tier::Thorough { (1..n).collect() } else { (1..n).collect() };
    for j in pts {
        v.push(CState::Prefix(j));
    }
    v
}

fn c16_cases(tier: Tier) -> Vec<(Vec<CState>, Vec<usize>, bool)> {
    let base = c16_cases_base(tier);
    let mut out = vec![];
    for (s, o) in base {
        let queued = s.contains(&CState::Queued);
        out.push((s.clone(), o.clone(), false));
        if !queued {
            out.push((s, o, true));
        }
    }
    out
}

fn c16_cases_base(tier: Tier) -> Vec<(Vec<CState>, Vec<usize>)> {
    let mut cases = vec![];
    let sts = c16_states(tier);
    for s in &sts {
        let k = pending_events(s).len();
        cases.push((vec![s.clone()], vec![0; k]));
    }
    // two connections: every pair of states (prefixes reduced to three representatives), every
    // interleaving of their remaining events
    let n = set_req(0).encode().len();
    let reduced: Vec<CState> = sts.iter().filter(|s| !matches!(s, CState::Prefix(j) if tier == Tier::Quick && ![1usize, n / 2, n - 1].contains(j))).cloned().collect();
    for a in &reduced {
        for b in &reduced {
            if matches!(a, CState::Prefix(_)) && matches!(b, CState::Prefix(_)) && tier == Tier::Quick {
                continue;
            }
            if *a == CState::ReplyStalled && *b == CState::ReplyStalled {
                continue;
            }
            for ord in interleavings(&[pending_events(a).len(), pending_events(b).len()]) {
                cases.push((vec![a.clone(), b.clone()], ord));
            }
        }
    }
    // a connection that waits for a slot (max_connections 1) while the shutdown fires
    let mid = set_req(0).encode().len() / 2;
    for a in [CState::Idle0, CState::Idle1, CState::HeldBefore, CState::HeldAfter, CState::Pipelined, CState::Streaming, CState::Prefix(mid)] {
        let k = pending_events(&a).len();
        cases.push((vec![a, CState::Queued], vec![0; k]));
    }
    cases
}

pub fn c16(job: &Job, sh: &mut Shard, t0: Instant) {
    let cases = c16_cases(job.tier);
    let dir = job.scratch().join("store");
    let total = cases.len();
    for (i, (states, ord, at_limit)) in cases.into_iter().enumerate() {
        if i % job.nshards != job.shard {
            continue;
        }
        if t0.elapsed().as_secs() > job.deadline_s || sh.viol_counts.values().sum::<u64>() >= 6 {
            sh.capped = true;
            sh.notes.insert(format!("stopped (time cap or 6 violations in this shard) after {} of {} cases", i, total));
            return;
        }
        let case = json!({"engine": "net", "kind": "c16", "states": states.iter().map(|s| format!("{:?}", s)).collect::<Vec<_>>(), "order": ord, "at_limit": at_limit});
        job.progress(&case);
        sh.evaluations += 1;
        sh.transitions += ord.len() as u64 + states.len() as u64 + 1;
        sh.nontrivial.insert(fnv(format!("{:?}{:?}{}", states, ord, at_limit).as_bytes()));
        let mut pre = vec![];
        sh.states.insert(fnv(format!("{:?}{}", states, at_limit).as_bytes()));
        for o in &ord {
            pre.push(*o);
            sh.states.insert(fnv(format!("{:?}{:?}{}", states, pre, at_limit).as_bytes()));
        }
        match c16_case(&dir, &states, &ord, at_limit) {
            Ok(o) => sh.outcome(format!("{}{}", o, if at_limit { " [at the connection limit]" } else { "" })),
            Err((c, msg)) if c == "MACHINERY" => sh.machinery_errors.push(format!("C16 {} {:?}", msg, states)),
            Err((c, msg)) => match c16_case(&dir, &states, &ord, at_limit) {
                Err((c2, _)) if c2 == c => sh.violate(Violation { class: format!("C16:{}", c), msg: format!("{} | connection states {:?}, events after the signal (by connection) {:?}, max_connections {}", msg, states, ord, if states.contains(&CState::Queued) { "1".to_string() } else if at_limit { format!("{} (= number of connections)", states.len()) } else { "8".to_string() }), case }),
                other => sh.machinery_errors.push(format!("C16 violation {} not reproduced ({:?}): {}", c, other.map_err(|e| e.0), msg)),
            },
        }
        if sh.samples.len() < 3 && i % 37 == job.shard {
            sh.samples.push(json!({"states": states.iter().map(|s| format!("{:?}", s)).collect::<Vec<_>>(), "order": ord}));
        }
    }
}

fn parse_cstate(s: &str) -> Option<CState> {
    match s {
        "Idle0" => Some(CState::Idle0),
        "Idle1" => Some(CState::Idle1),
        "HeldBefore" => Some(CState::HeldBefore),
        "HeldAfter" => Some(CState::HeldAfter),
        "Pipelined" => Some(CState::Pipelined),
        "ReplyStalled" => Some(CState::ReplyStalled),
        "Queued" => Some(CState::Queued),
        "Streaming" => Some(CState::Streaming),
        "EndedBad" => Some(CState::EndedBad),
        "EndedPanic" => Some(CState::EndedPanic),
        "EndedClosed" => Some(CState::EndedClosed),
        "AcceptFailed" => Some(CState::AcceptFailed),
        _ => s.strip_prefix("Prefix(").and_then(|r| r.trim_end_matches(')').parse().ok()).map(CState::Prefix),
    }
}

// =============================================================================================
// C10 — hostile input
// =============================================================================================

#[derive(Clone, Copy, Debug, PartialEq, Eq)]
pub enum Ending {
    Close,
    HalfClose,
    LeaveOpen,
}

/// What the reference says a server must do with `stream`: replies for the well-formed prefix,
/// the model after it, and whether the connection then ends in an error.
fn reference_run(stream: &[u8], m: &mut Kv) -> (Vec<u8>, bool, bool) {
    // (expected reply bytes, hits malformed input, leaves an incomplete tail)
    let mut p = 0;
    let mut replies = vec![];
    loop {
        if p == stream.len() {
            return (replies, false, false);
        }
        match resp_decode(stream, p) {
            Ok((f, q)) => match Req::from_frame(&f) {
                Some(r) => {
                    replies.extend_from_slice(&enc(&r.apply(m)));
                    p = q;
                }
                None => return (replies, true, false),
            },
            Err(RErr::Bad) => return (replies, true, false),
            Err(RErr::Incomplete) => return (replies, false, true),
        }
    }
}

/// `crowd`: the same hostile stream is first sent on this many other connections, one after the
/// other, each closed by its client (more of them than the server has slots): whatever a hostile
/// connection leaves behind adds up.
pub fn c10_case(dir: &Path, stream: &[u8], ending: Ending, a_first: bool, crowd: usize) -> Result<String, V> {
    let srv = Srv::start(dir, &SrvCfg { max_connections: 8, max_file_size: 1 << 31, gated: false }).map_err(mach)?;
    let r = (|| -> Result<String, V> {
        let mut model = Kv::new();
        let mut b: Option<TcpStream> = None;
        let ctl_set = Req::Set(b"ctl".to_vec(), b"v1".to_vec());
        let do_b_set = |b: &mut Option<TcpStream>, model: &mut Kv| -> Result<(), V> {
            let mut s = srv.connect().map_err(|e| ("listener-gone".to_string(), format!("control connection cannot connect: {}", e)))?;
            s.write_all(&ctl_set.encode()).map_err(|e| mach(e.to_string()))?;
            let want = ctl_set.apply(model);
            match read_frame(&mut s, T20) {
                Ok((f, _)) if f == want => {}
                o => return Err(("control-connection-wrong-answer".into(), format!("SET ctl on the control connection: {:?}", o.map(|x| x.0)))),
            }
            *b = Some(s);
            Ok(())
        };
        if !a_first {
            do_b_set(&mut b, &mut model)?;
        }
        for _ in 0..crowd {
            let mut h = srv.connect().map_err(|e| ("listener-gone".to_string(), format!("a further hostile connection cannot connect: {}", e)))?;
            let _ = h.write_all(stream);
            let (replies, _, _) = reference_run(stream, &mut model);
            let _ = read_n(&mut h, replies.len(), Duration::from_secs(2));
            drop(h);
        }
        // the hostile connection
        let e0 = srv.epoch();
        let mut a = srv.connect().map_err(|e| mach(format!("connect: {}", e)))?;
        let _ = a.write_all(stream);
        let (want_replies, malformed, incomplete) = reference_run(stream, &mut model);
        let mut a_bytes = vec![];
        match ending {
            Ending::Close => {
                // read the replies of the well-formed prefix, then whatever else is there once the
                // server has digested everything, then close
                let (bts, _) = read_n(&mut a, want_replies.len(), T20);
                a_bytes.extend_from_slice(&bts);
                srv.quiesce(e0);
                let (bts, _, _) = try_read(&mut a);
                a_bytes.extend_from_slice(&bts);
                drop(a);
            }
            Ending::HalfClose => {
                a.shutdown(NetShutdown::Write).ok();
                let (bts, how) = read_to_end(&mut a, T20);
                a_bytes.extend_from_slice(&bts);
                if how == "timeout" {
                    return Err(("offending-connection-not-closed".into(), format!("the connection was half-closed by the client but the server kept it open for 6 s ({} reply bytes)", a_bytes.len())));
                }
                drop(a);
            }
            Ending::LeaveOpen => {
                let (bts, _) = read_n(&mut a, want_replies.len(), T20);
                a_bytes.extend_from_slice(&bts);
                srv.quiesce(e0);
                let (bts, _, _) = try_read(&mut a);
                a_bytes.extend_from_slice(&bts);
                // keep `a` open until the end of the case
                std::thread_local! { static KEEP: std::cell::RefCell<Vec<TcpStream>> = std::cell::RefCell::new(vec![]); }
                KEEP.with(|k| {
                    let mut k = k.borrow_mut();
                    k.clear();
                    k.push(a);
                });
            }
        }
        let e1 = srv.epoch();
        srv.quiesce(e1);
        if srv.thread_finished() {
            return Err(("server-died".into(), "the server thread ended after the hostile stream".into()));
        }
        // A saw the replies of its well-formed prefix (then EOF / RST / nothing)
        // (error replies to what is not well-formed are the server's choice: the property allows
        // anything up to closing the connection, but no command reply beyond the well-formed prefix)
        let tolerated = a_bytes.starts_with(&want_replies) && {
            let (fr, rest, bad) = resp_split(&a_bytes[want_replies.len()..]);
            rest.is_empty() && !bad && fr.iter().all(|f| matches!(f, RFrame::Error(_)))
        };
        if !tolerated {
            return Err(("hostile-connection-got-unexpected-replies".into(), format!("received {:?}, the reference expects {:?} (malformed {}, incomplete {})", String::from_utf8_lossy(&a_bytes), String::from_utf8_lossy(&want_replies), malformed, incomplete)));
        }
        if a_first {
            do_b_set(&mut b, &mut model)?;
        }
        // control connection still served with correct answers
        let mut bs = b.take().unwrap();
        let g = Req::Get(b"ctl".to_vec());
        bs.write_all(&g.encode()).map_err(|e| ("control-connection-broken".to_string(), e.to_string()))?;
        let want = g.apply(&mut model);
        match read_frame(&mut bs, T20) {
            Ok((f, _)) if f == want => {}
            o => return Err(("control-connection-wrong-answer".into(), format!("GET ctl on the control connection: {:?}, expected {:?}", o.map(|x| x.0), want))),
        }
        // a fresh connection is accepted and answered
        let mut c = srv.connect().map_err(|e| ("listener-gone".to_string(), format!("fresh connection cannot connect: {}", e)))?;
        c.write_all(&g.encode()).map_err(|e| mach(e.to_string()))?;
        match read_frame(&mut c, T20) {
            Ok((f, _)) if f == want => {}
            o => return Err(("fresh-connection-not-served".into(), format!("GET ctl on a fresh connection: {:?}", o.map(|x| x.0)))),
        }
        // stored data changed only through well-formed commands
        let mut keys: Vec<Vec<u8>> = vec![b"ctl".to_vec(), b"a".to_vec(), b"b".to_vec(), b"0".to_vec(), b"1".to_vec(), b"9".to_vec(), vec![], b"\xff".to_vec(), b"k".to_vec(), b"x".to_vec(), b"a0".to_vec(), b"a1".to_vec(), b"a2".to_vec(), b"a3".to_vec(), b"\xff\xfe".to_vec(), b"SET".to_vec(), b"GET".to_vec(), b"DEL".to_vec()];
        // every short bulk-string payload that occurs anywhere in the hostile stream is a potential key
        {
            let mut i = 0;
            while i < stream.len() && keys.len() < 64 {
                if stream[i] == b'$' {
                    if let Ok((Some(n), q)) = crate::model::ref_decimal(stream, i + 1) {
                        if (0..=32).contains(&n) && q + n as usize <= stream.len() {
                            let k = stream[q..q + n as usize].to_vec();
                            if !keys.contains(&k) {
                                keys.push(k);
                            }
                        }
                    }
                }
                i += 1;
            }
        }
        let contents = srv.store_contents(&keys);
        let mut mk = model.clone();
        mk.retain(|k, _| keys.contains(k));
        if contents != mk {
            return Err(("store-changed-by-malformed-input".into(), format!("store {:?}, model {:?}", contents.iter().map(|(k, v)| (hex(k), hex(v))).collect::<Vec<_>>(), mk.iter().map(|(k, v)| (hex(k), hex(v))).collect::<Vec<_>>())));
        }
        Ok(format!("{}{}", if malformed { "malformed" } else if incomplete { "incomplete" } else { "wellformed" }, if want_replies.is_empty() { "" } else { "+replies" }))
    })();
    let stopped = srv.stop();
    let o = r?;
    if !stopped {
        return Err(("server-does-not-stop".into(), "run() did not return within 6 s after the hostile traffic".into()));
    }
    Ok(o)
}

/// The hostile client arrives while the server is AT its connection limit: it sits in the backlog,
/// sends its stream and goes away again (FIN, or RST) before it is ever accepted; a slot is freed
/// afterwards and the server takes the dead connection off the queue.
pub fn c10_queued_case(dir: &Path, stream: &[u8], reset: bool) -> Result<String, V> {
    let srv = Srv::start(dir, &SrvCfg { max_connections: 2, max_file_size: 1 << 31, gated: false }).map_err(mach)?;
    let r = (|| -> Result<String, V> {
        let mut model = Kv::new();
        let ctl_set = Req::Set(b"ctl".to_vec(), b"v1".to_vec());
        let g = Req::Get(b"ctl".to_vec());
        let mut b = srv.connect().map_err(|e| mach(format!("connect: {}", e)))?;
        b.write_all(&ctl_set.encode()).map_err(|e| mach(e.to_string()))?;
        let want = ctl_set.apply(&mut model);
        match read_frame(&mut b, T20) {
            Ok((f, _)) if f == want => {}
            o => return Err(mach(format!("setup: SET ctl: {:?}", o.map(|x| x.0)))),
        }
        let mut f = srv.connect().map_err(|e| mach(format!("connect: {}", e)))?;
        f.write_all(&g.encode()).map_err(|e| mach(e.to_string()))?;
        let wantg = g.apply(&mut model);
        match read_frame(&mut f, T20) {
            Ok((x, _)) if x == wantg => {}
            o => return Err(mach(format!("setup: GET ctl on the second connection: {:?}", o.map(|x| x.0)))),
        }
        // both slots are taken: the hostile connection waits in the backlog
        let e0 = srv.epoch();
        let mut a = srv.connect().map_err(|e| mach(format!("connect: {}", e)))?;
        let _ = a.write_all(stream);
        let before = model.clone();
        let _ = reference_run(stream, &mut model);
        if reset {
            use std::os::unix::io::AsRawFd;
            let lg = libc::linger { l_onoff: 1, l_linger: 0 };
            unsafe {
                libc::setsockopt(a.as_raw_fd(), libc::SOL_SOCKET, libc::SO_LINGER, &lg as *const _ as *const libc::c_void, std::mem::size_of::<libc::linger>() as u32);
            }
        }
        drop(a);
        srv.quiesce(e0);
        // a slot is freed: the server accepts what is left of the hostile connection
        let e1 = srv.epoch();
        drop(f);
        srv.quiesce(e1);
        std::thread::sleep(Duration::from_millis(2));
        srv.quiesce(srv.epoch());
        if srv.thread_finished() || srv.run_returned.load(Ordering::SeqCst) {
            return Err(("server-died".into(), format!("the server stopped after it accepted a connection that had been {} while it waited in the backlog", if reset { "reset" } else { "closed" })));
        }
        b.write_all(&g.encode()).map_err(|e| ("control-connection-broken".to_string(), e.to_string()))?;
        match read_frame(&mut b, T20) {
            Ok((x, _)) if x == wantg => {}
            o => return Err(("control-connection-wrong-answer".into(), format!("GET ctl on the control connection: {:?}, expected {:?}", o.map(|x| x.0), wantg))),
        }
        let mut d = srv.connect().map_err(|e| ("listener-gone".to_string(), format!("fresh connection cannot connect: {}", e)))?;
        d.write_all(&g.encode()).map_err(|e| mach(e.to_string()))?;
        match read_frame(&mut d, T20) {
            Ok((x, _)) if x == wantg => {}
            o => return Err(("fresh-connection-not-served".into(), format!("GET ctl on a fresh connection: {:?}", o.map(|x| x.0)))),
        }
        // the store: the well-formed prefix of the hostile stream was executed (what was received
        // before the connection went away is still read) or, for a reset, not at all
        let keys: Vec<Vec<u8>> = vec![b"ctl".to_vec(), b"a".to_vec(), b"b".to_vec(), b"k".to_vec(), b"x".to_vec(), b"a0".to_vec(), b"a1".to_vec(), b"a2".to_vec(), b"SET".to_vec(), vec![], b"\xff\xfe".to_vec()];
        let contents = srv.store_contents(&keys);
        let proj = |m: &Kv| {
            let mut m = m.clone();
            m.retain(|k, _| keys.contains(k));
            m
        };
        if contents != proj(&model) && !(reset && contents == proj(&before)) {
            return Err(("store-changed-by-malformed-input".into(), format!("store {:?}, model {:?}", contents.iter().map(|(k, v)| (hex(k), hex(v))).collect::<Vec<_>>(), proj(&model).iter().map(|(k, v)| (hex(k), hex(v))).collect::<Vec<_>>())));
        }
        Ok(format!("queued-{}", if reset { "reset" } else { "closed" }))
    })();
    let stopped = srv.stop();
    let o = r?;
    if !stopped {
        return Err(("server-does-not-stop".into(), "run() did not return within 6 s after the hostile traffic".into()));
    }
    Ok(o)
}

fn c10_streams(tier: Tier) -> Vec<(Vec<u8>, String)> {
    let mut v: Vec<(Vec<u8>, String)> = vec![];
    let alpha = crate::e4::ALPHA;
    let l = tier.pick(4usize, 5usize);
    for len in 1..=l {
        let total = (alpha.len() as u64).pow(len as u32);
        for idx in 0..total {
            let mut s = vec![0u8; len];
            let mut x = idx;
            for i in (0..len).rev() {
                s[i] = alpha[(x % alpha.len() as u64) as usize];
                x /= alpha.len() as u64;
            }
            v.push((s, "exhaustive string".into()));
        }
    }
    // mutations of well-formed requests
    let reqs = vec![cmd(&[b"SET", b"a", b"x"]), cmd(&[b"GET", b"a"]), cmd(&[b"DEL", b"a", b"b"])];
    for r in &reqs {
        for k in 0..r.len() {
            v.push((r[..k].to_vec(), format!("truncation at {}", k)));
            for &sym in alpha {
                if r[k] != sym {
                    let mut m = r.clone();
                    m[k] = sym;
                    v.push((m, format!("substitution at {}", k)));
                }
            }
        }
        // a valid request, then the mutated one (replies for the prefix)
        let mut two = cmd(&[b"SET", b"b", b"1"]);
        two.extend_from_slice(&r[..r.len() - 3]);
        v.push((two, "valid request followed by a truncated one".into()));
    }
    // structured hostility
    let bulk = |b: &[u8]| RFrame::Bulk(b.to_vec());
    let arr = |items: Vec<RFrame>| enc(&RFrame::Array(items));
    v.push((arr(vec![bulk(b"PING")]), "unknown command".into()));
    v.push((arr(vec![bulk(b"set"), bulk(b"a"), bulk(b"x")]), "lower-case command".into()));
    for name in [&b"SET"[..], b"GET", b"DEL"] {
        for arity in 0..=4usize {
            let mut items = vec![bulk(name)];
            for i in 0..arity {
                items.push(bulk(format!("a{}", i).as_bytes()));
            }
            v.push((arr(items), format!("{} with {} arguments", String::from_utf8_lossy(name), arity)));
        }
        for (tname, t) in [("integer", RFrame::Integer(1)), ("simple", RFrame::Simple(b"a".to_vec())), ("null", RFrame::Null), ("error", RFrame::Error(b"e".to_vec())), ("array", RFrame::Array(vec![bulk(b"a")]))] {
            for pos in 0..3usize {
                let mut items = vec![bulk(name), bulk(b"a"), bulk(b"x")];
                if name != b"SET" {
                    items.pop();
                }
                if pos < items.len() {
                    items[pos] = t.clone();
                    v.push((arr(items), format!("{} with a {} at position {}", String::from_utf8_lossy(name), tname, pos)));
                }
            }
        }
        v.push((arr(vec![bulk(name), bulk(b"\xff\xfe"), bulk(b"x")]), format!("{} with a non-UTF-8 key", String::from_utf8_lossy(name))));
    }
    // command names NEAR the three real ones, with argument lists the real commands would accept:
    // prefixes, one byte prepended / appended / replaced, every upper/lower-case spelling, and the
    // names of real Redis commands that start with SET / GET / DEL
    {
        let mut names: Vec<Vec<u8>> = vec![];
        for base in [&b"SET"[..], b"GET", b"DEL"] {
            for k in 0..base.len() {
                names.push(base[..k].to_vec());
            }
            for extra in [b'X', b'x', b'N', b'E', b' ', 0u8, 0xff, b'\r', b'\n', b'1'] {
                let mut n = base.to_vec();
                n.push(extra);
                names.push(n);
                let mut n = vec![extra];
                n.extend_from_slice(base);
                names.push(n);
                for pos in 0..base.len() {
                    let mut n = base.to_vec();
                    n[pos] = extra;
                    names.push(n);
                }
            }
            for mask in 1..8u8 {
                let n: Vec<u8> = base.iter().enumerate().map(|(i, b)| if mask & (1 << i) != 0 { b.to_ascii_lowercase() } else { *b }).collect();
                names.push(n);
            }
            let mut n = base.to_vec();
            n.extend_from_slice(base);
            names.push(n);
        }
        for real in [&b"SETNX"[..], b"SETEX", b"SETRANGE", b"SETBIT", b"GETSET", b"GETDEL", b"GETEX", b"GETRANGE", b"DELETE", b"DELEX", b"UNLINK", b"MSET", b"MGET", b"PSETEX", b"HSET", b"HGET", b"HDEL", b"FLUSHALL", b"APPEND", b"INCR"] {
            names.push(real.to_vec());
        }
        names.sort();
        names.dedup();
        for n in names {
            if [&b"SET"[..], b"GET", b"DEL"].contains(&&n[..]) {
                continue;
            }
            for args in [vec![&b"a"[..]], vec![&b"a"[..], b"x"], vec![&b"a"[..], b"x", b"y"]] {
                let mut items = vec![bulk(&n)];
                items.extend(args.iter().map(|a| bulk(a)));
                v.push((arr(items), format!("command name {:?} with {} arguments", String::from_utf8_lossy(&n), args.len())));
            }
        }
    }
    v.push((b"+OK\r\n".to_vec(), "a simple string instead of an array".into()));
    v.push((b":1\r\n".to_vec(), "an integer instead of an array".into()));
    v.push((b"$-1\r\n".to_vec(), "a null instead of an array".into()));
    v.push((b"*0\r\n".to_vec(), "an empty array".into()));
    for d in [33usize, 1000, 100_000, 300_000] {
        let mut m = b"*1\r\n".repeat(d);
        v.push((m.clone(), format!("{} nested arrays, no element", d)));
        m.extend_from_slice(b":1\r\n");
        v.push((m, format!("{} nested arrays around an integer", d)));
    }
    for l in ["1000000000000", "9223372036854775807", "18446744073709551615", "4294967296"] {
        v.push((format!("*{}\r\n", l).into_bytes(), format!("array of declared length {}", l)));
        v.push((format!("*3\r\n$3\r\nSET\r\n$1\r\na\r\n${}\r\nxy\r\n", l).into_bytes(), format!("SET whose value declares length {}", l)));
        v.push((format!("${}\r\n", l).into_bytes(), format!("bulk string of declared length {}", l)));
    }
    v.push((vec![0u8; 70_000], "70 000 NUL bytes".into()));
    v.push((b"*3\r\n$3\r\nSET\r\n$1\r\na\r\n$70000\r\n".iter().cloned().chain(std::iter::repeat(b'z').take(35_000)).collect(), "SET with half of a 70 000-byte value".into()));
    v
}

/// A client that does not READ: it asks for a value of `big` bytes `gets` times with a receive
/// buffer of 4 KiB, reads nothing, and then sends `tail` (garbage, an unknown command, nothing) and
/// possibly half-closes. Whatever the server does with that connection, the control connection is
/// answered (within the 6 s cap) right after, and the data is unchanged.
pub fn c10_deaf_case(dir: &Path, big: usize, gets: usize, tail: &[u8], half_close: bool) -> Result<String, V> {
    let srv = Srv::start(dir, &SrvCfg { max_connections: 8, max_file_size: 1 << 31, gated: false }).map_err(mach)?;
    let r = (|| -> Result<String, V> {
        let value: Vec<u8> = (0..big).map(|i| b'a' + (i % 23) as u8).collect();
        srv.handle.set(Bytes::from_static(b"big"), Bytes::from(value.clone())).map_err(|e| mach(e.to_string()))?;
        let mut b = srv.connect().map_err(|e| mach(format!("connect: {}", e)))?;
        b.write_all(&Req::Set(b"ctl".to_vec(), b"v1".to_vec()).encode()).map_err(|e| mach(e.to_string()))?;
        match read_frame(&mut b, T20) {
            Ok((RFrame::Simple(s), _)) if s == b"OK" => {}
            o => return Err(("control-connection-wrong-answer".into(), format!("SET ctl: {:?}", o.map(|x| x.0)))),
        }
        let e0 = srv.epoch();
        let mut a = srv.connect_small_rcvbuf(4096).map_err(|e| mach(format!("connect: {}", e)))?;
        for _ in 0..gets {
            a.write_all(&Req::Get(b"big".to_vec()).encode()).map_err(|e| mach(e.to_string()))?;
        }
        srv.quiesce(e0);
        let e1 = srv.epoch();
        let _ = a.write_all(tail);
        if half_close {
            a.shutdown(NetShutdown::Write).ok();
        }
        // the server digests that; a thread that is busy with it for seconds serves nobody else
        let tq = Instant::now();
        srv.quiesce(e1);
        if tq.elapsed() > T20 {
            return Err(("other-connection-not-served".into(), format!("a client asked {} times for a {}-byte value without reading, then sent {:?}{}: the server's thread was busy with that for {} ms (it runs every connection)", gets, big, String::from_utf8_lossy(tail), if half_close { " and half-closed" } else { "" }, tq.elapsed().as_millis())));
        }
        // the control connection, and a new one, are served at once
        let t0 = Instant::now();
        b.write_all(&Req::Get(b"ctl".to_vec()).encode()).map_err(|e| mach(e.to_string()))?;
        match read_frame(&mut b, T20) {
            Ok((RFrame::Bulk(v), _)) if v == b"v1" => {}
            o => return Err(("other-connection-not-served".into(), format!("a client asked {} times for a {}-byte value without reading, then sent {:?}{}; GET ctl on another connection right after: {:?} after {} ms", gets, big, String::from_utf8_lossy(tail), if half_close { " and half-closed" } else { "" }, o.map(|x| x.0), t0.elapsed().as_millis()))),
        }
        let mut c = srv.connect().map_err(|e| ("listener-gone".to_string(), format!("a new connection cannot connect: {}", e)))?;
        c.write_all(&Req::Get(b"ctl".to_vec()).encode()).map_err(|e| mach(e.to_string()))?;
        match read_frame(&mut c, T20) {
            Ok((RFrame::Bulk(v), _)) if v == b"v1" => {}
            o => return Err(("other-connection-not-served".into(), format!("a new connection after the non-reading client ({} x {} bytes, then {:?}): GET ctl -> {:?}", gets, big, String::from_utf8_lossy(tail), o.map(|x| x.0)))),
        }
        // the non-reading client now reads: complete replies of the GETs it sent, then whatever
        a.set_read_timeout(Some(Duration::from_millis(1500))).ok();
        let mut got = vec![];
        let mut buf = vec![0u8; 1 << 16];
        let t1 = Instant::now();
        loop {
            match a.read(&mut buf) {
                Ok(0) => break,
                Ok(n) => got.extend_from_slice(&buf[..n]),
                Err(_) => break,
            }
            if t1.elapsed() > T20 {
                break;
            }
        }
        let one: Vec<u8> = [format!("${}\r\n", big).into_bytes(), value.clone(), b"\r\n".to_vec()].concat();
        let whole = got.len() / one.len();
        if whole > gets || (0..whole).any(|i| got[i * one.len()..(i + 1) * one.len()] != one[..]) {
            return Err(("wrong-reply-to-the-non-reading-client".into(), format!("{} bytes received; they do not start with {} complete replies of {} bytes", got.len(), whole, one.len())));
        }
        drop(a);
        let contents = srv.store_contents(&[b"ctl".to_vec(), b"big".to_vec()]);
        if contents.get(&b"ctl".to_vec()) != Some(&b"v1".to_vec()) || contents.get(&b"big".to_vec()) != Some(&value) {
            return Err(("store-changed-by-hostile-input".into(), "ctl / big differ from what was set".into()));
        }
        Ok(format!("deaf:{}-replies-read", whole))
    })();
    let stopped = srv.stop();
    let o = r?;
    if !stopped {
        return Err(mach("server did not stop"));
    }
    Ok(o)
}

pub fn c10(job: &Job, sh: &mut Shard, t0: Instant) {
    let streams = c10_streams(job.tier);
    let dir = job.scratch().join("store");
    let total = streams.len();
    let mut n = 0usize;
    // the client that does not read
    let bigs: Vec<usize> = if job.tier == Tier::Quick { vec![16 << 10, 256 << 10, 1 << 20] } else { vec![4 << 10, 16 << 10, 64 << 10, 256 << 10, 1 << 20, 2 << 20, 4 << 20] };
    let tails: Vec<&[u8]> = vec![b"!\r\n", b"*1\r\n$3\r\nFOO\r\n", b"*2\r\n$3\r\nGET\r\n", b""];
    for &big in &bigs {
        for gets in [1usize, 3] {
            for (ti, tail) in tails.iter().enumerate() {
                for half_close in [false, true] {
                    n += 1;
                    if n % job.nshards != job.shard {
                        continue;
                    }
                    let case = json!({"engine": "net", "kind": "c10deaf", "big": big, "gets": gets, "tail": ti, "half_close": half_close});
                    job.progress(&case);
                    sh.evaluations += 1;
                    sh.transitions += 4;
                    sh.states.insert(fnv(format!("deaf{}{}{}{}", big, gets, ti, half_close).as_bytes()));
                    sh.nontrivial.insert(fnv(format!("deaf{}{}{}{}", big, gets, ti, half_close).as_bytes()));
                    match c10_deaf_case(&dir, big, gets, tail, half_close) {
                        Ok(o) => sh.outcome(o),
                        Err((c, msg)) if c == "MACHINERY" => sh.machinery_errors.push(format!("C10 non-reading client: {}", msg)),
                        Err((c, msg)) => match c10_deaf_case(&dir, big, gets, tail, half_close) {
                            Err((c2, _)) if c2 == c => sh.violate(Violation { class: format!("C10:{}", c), msg, case }),
                            other => sh.machinery_errors.push(format!("C10 violation {} not reproduced ({:?}): {}", c, other.map_err(|e| e.0), msg)),
                        },
                    }
                }
            }
        }
    }
    for (i, (s, what)) in streams.iter().enumerate() {
        for (j, ending) in [Ending::Close, Ending::HalfClose, Ending::LeaveOpen].into_iter().enumerate() {
            for (k, a_first, crowd) in [(0usize, false, 0usize), (1, true, 0), (0, false, 12)] {
                // the position of the hostile connection relative to the control traffic is varied for
                // the structured cases; exhaustive strings use "between SET and GET"
                if a_first && what == "exhaustive string" {
                    continue;
                }
                // a crowd of 12 hostile connections before it: structured cases (and the exhaustive
                // strings of length <= 3), ended by close
                if crowd > 0 && (ending != Ending::Close || (what == "exhaustive string" && s.len() > 3) || s.len() > 100_000) {
                    continue;
                }
                n += 1;
                if n % job.nshards != job.shard {
                    continue;
                }
                if t0.elapsed().as_secs() > job.deadline_s || sh.viol_counts.values().sum::<u64>() >= 6 {
                    sh.capped = true;
                    sh.notes.insert(format!("stopped (time cap or 6 violations in this shard) after {} of {} streams", i, total));
                    return;
                }
                let shown: Vec<u8> = s.iter().cloned().take(120).collect();
                let case = json!({"engine": "net", "kind": "c10", "what": what, "len": s.len(), "bytes": if s.len() <= 4096 { json!(s) } else { json!(null) }, "shown": String::from_utf8_lossy(&shown), "ending": j, "a_first": k, "crowd": crowd});
                job.progress(&case);
                sh.evaluations += 1;
                sh.transitions += 5;
                sh.nontrivial.insert(fnv(s));
                sh.states.insert(fnv(format!("{:?}{}{}{}", s, j, k, crowd).as_bytes()));
                match c10_case(&dir, s, ending, a_first, crowd) {
                    Ok(o) => sh.outcome(format!("{} / {:?}{}", o, ending, if crowd > 0 { " / crowd" } else { "" })),
                    Err((c, msg)) if c == "MACHINERY" => sh.machinery_errors.push(format!("C10 {} ({})", msg, what)),
                    Err((c, msg)) => match c10_case(&dir, s, ending, a_first, crowd) {
                        Err((c2, _)) if c2 == c => sh.violate(Violation { class: format!("C10:{}", c), msg: format!("{} | hostile stream: {} {:?} ({} bytes), ending {:?}, hostile connection first: {}, after {} other connections with the same stream", msg, what, String::from_utf8_lossy(&shown), s.len(), ending, a_first, crowd), case }),
                        other => sh.machinery_errors.push(format!("C10 violation {} not reproduced ({:?}): {} ({})", c, other.map_err(|e| e.0), msg, what)),
                    },
                }
                if sh.samples.len() < 3 && n % 1009 == job.shard {
                    sh.samples.push(json!({"what": what, "stream": String::from_utf8_lossy(&shown), "ending": format!("{:?}", ending)}));
                }
            }
        }
    }
    // the hostile client queued behind a full server
    let mut q = 0usize;
    let mut queued: Vec<(Vec<u8>, String)> = vec![(vec![], "no bytes at all".into()), (cmd(&[b"GET", b"a"]), "a well-formed GET".into()), (cmd(&[b"SET", b"a", b"x"]), "a well-formed SET".into())];
    queued.extend(streams.iter().filter(|(s, w)| w != "exhaustive string" && s.len() <= 100_000).cloned());
    for (s, what) in &queued {
        for reset in [false, true] {
            q += 1;
            if q % job.nshards != job.shard {
                continue;
            }
            if t0.elapsed().as_secs() > job.deadline_s || sh.viol_counts.values().sum::<u64>() >= 6 {
                sh.capped = true;
                return;
            }
            let shown: Vec<u8> = s.iter().cloned().take(120).collect();
            let case = json!({"engine": "net", "kind": "c10q", "what": what, "len": s.len(), "bytes": if s.len() <= 4096 { json!(s) } else { json!(null) }, "shown": String::from_utf8_lossy(&shown), "reset": reset});
            job.progress(&case);
            sh.evaluations += 1;
            sh.transitions += 6;
            sh.states.insert(fnv(format!("q{:?}{}", s, reset).as_bytes()));
            match c10_queued_case(&dir, s, reset) {
                Ok(o) => sh.outcome(o),
                Err((c, msg)) if c == "MACHINERY" => sh.machinery_errors.push(format!("C10 {} ({})", msg, what)),
                Err((c, msg)) => match c10_queued_case(&dir, s, reset) {
                    Err((c2, _)) if c2 == c => sh.violate(Violation { class: format!("C10:{}", c), msg: format!("{} | hostile stream: {} {:?} ({} bytes), sent while waiting in the backlog of a full server (max_connections 2), then {}", msg, what, String::from_utf8_lossy(&shown), s.len(), if reset { "reset" } else { "closed" }), case }),
                    other => sh.machinery_errors.push(format!("C10 violation {} not reproduced ({:?}): {} ({})", c, other.map_err(|e| e.0), msg, what)),
                },
            }
        }
    }
}

// =============================================================================================

pub fn replay(prop: &str, case: &Value, dir: &Path) -> Vec<Violation> {
    let mut out = vec![];
    let mut push = |r: Result<String, V>| {
        if let Ok(o) = &r {
            println!("replayed case: {}", o);
        }
        if let Err((c, m)) = r {
            out.push(Violation { class: format!("{}:{}", prop, c), msg: m, case: case.clone() });
        }
    };
    match case["kind"].as_str().unwrap_or("") {
        "c15" => {
            let n = case["n"].as_u64().unwrap_or(1) as usize;
            let w: Vec<CEv> = case["word"].as_array().map(|a| a.iter().filter_map(|x| x.as_str().and_then(parse_cev)).collect()).unwrap_or_default();
            if case["long_run"].as_bool().unwrap_or(false) {
                LONG_CYCLES.store(1, Ordering::SeqCst);
            }
            push(c15_case(dir, n, &w));
        }
        "c11" => {
            let progs: Vec<Vec<Req>> = case["programs"].as_array().map(|a| a.iter().map(|p| p.as_array().unwrap().iter().filter_map(Req::from_json).collect()).collect()).unwrap_or_default();
            let ord: Vec<usize> = case["order"].as_array().map(|a| a.iter().map(|x| x.as_u64().unwrap() as usize).collect()).unwrap_or_default();
            let inner = case["inner"].as_u64().map(|x| x as u8).unwrap_or(if case["inner"].as_bool().unwrap_or(false) { 1 } else { 0 });
            push(c11_run(dir, &progs, &ord, case["max_file_size"].as_u64().unwrap_or(1 << 31), case["merge"].as_bool().unwrap_or(false), inner));
        }
        "c10deaf" => {
            let tails: Vec<&[u8]> = vec![b"!\r\n", b"*1\r\n$3\r\nFOO\r\n", b"*2\r\n$3\r\nGET\r\n", b""];
            push(c10_deaf_case(dir, case["big"].as_u64().unwrap_or(0) as usize, case["gets"].as_u64().unwrap_or(1) as usize, tails[case["tail"].as_u64().unwrap_or(0) as usize % 4], case["half_close"].as_bool().unwrap_or(false)));
        }
        "c20srv" => push(c20_server_case(dir, case["cmd"].as_u64().unwrap_or(0) as usize, case["fail_key"].as_u64().unwrap_or(0) as usize)),
        "c10q" => {
            let bytes: Vec<u8> = case["bytes"].as_array().map(|a| a.iter().map(|b| b.as_u64().unwrap() as u8).collect()).unwrap_or_else(|| {
                let what = case["what"].as_str().unwrap_or("");
                c10_streams(Tier::Thorough).into_iter().find(|(_, w)| w == what).map(|x| x.0).unwrap_or_default()
            });
            push(c10_queued_case(dir, &bytes, case["reset"].as_bool().unwrap_or(false)));
        }
        "c16" => {
            let states: Vec<CState> = case["states"].as_array().map(|a| a.iter().filter_map(|x| x.as_str().and_then(parse_cstate)).collect()).unwrap_or_default();
            let ord: Vec<usize> = case["order"].as_array().map(|a| a.iter().map(|x| x.as_u64().unwrap() as usize).collect()).unwrap_or_default();
            push(c16_case(dir, &states, &ord, case["at_limit"].as_bool().unwrap_or(false)));
        }
        "c10" => {
            let bytes: Vec<u8> = case["bytes"].as_array().map(|a| a.iter().map(|x| x.as_u64().unwrap() as u8).collect()).unwrap_or_default();
            let ending = match case["ending"].as_u64().unwrap_or(0) {
                0 => Ending::Close,
                1 => Ending::HalfClose,
                _ => Ending::LeaveOpen,
            };
            if case["bytes"].is_null() {
                // long streams are regenerated from their description
                let what = case["what"].as_str().unwrap_or("");
                if let Some((s, _)) = c10_streams(Tier::Thorough).into_iter().find(|(_, w)| w == what) {
                    push(c10_case(dir, &s, ending, case["a_first"].as_u64() == Some(1), case["crowd"].as_u64().unwrap_or(0) as usize));
                }
            } else {
                push(c10_case(dir, &bytes, ending, case["a_first"].as_u64() == Some(1), case["crowd"].as_u64().unwrap_or(0) as usize));
            }
        }
        _ => {}
    }
    out
}

pub fn report_meta(prop: &str, tier: Tier, common: Vec<String>) -> (String, Value, Vec<String>) {
    match prop {
        "C15" => (
            format!("explicit-state search over connection-event words on a fresh real server per word, max_connections N in {{1, 2, 3}}: events = connect a client of kind {{sends GET, silent, half a frame, malformed bytes (server closes), handler panic (armed panic in the handler task), accept of this connection fails with ECONNABORTED (injected in the interposed accept4)}} or close the i-th open client; all words up to length {} with at most {} connections. After EVERY event: connections the accept model (FIFO accept while fewer than N handlers are alive) says are served must be answered (blocking wait), connections it says are waiting must have received nothing at quiescence, and the number of commands that reached the store must equal the model's. After the word: N fresh connections are served concurrently, one more is not, and it is served as soon as one of the N closes. Distinct+non-trivial = distinct words; states = distinct model states.", tier.pick("6", "7-8"), tier.pick(3, 4)),
            json!({"max_connections": [1, 2], "word_length": tier.pick(6, 8), "plans": tier.pick("N=1 len 6; N=2 len 6", "N=1 len 7; N=2 len 7; N=2 len 8")}),
            common,
        ),
        "C11" => (
            "2 clients x programs of 1-2 commands over {SET k 1, GET k, DEL k, SET k 2, GET j}, 3 clients x 1 command over the full alphabet (thorough: 3 clients x <= 2 commands over {SET k 1, GET k}), and a variant with rollover at every write and a merge after every store entry. Every command is held by the gate before it enters the store and again before it returns; EVERY interleaving of the enter / return events of the clients is executed (so every order in which concurrent commands enter the store, every order in which they return, one at a time and overlapping). Oracle: each reply equals the encoding of what its own store call returned; store-level and client-level histories are linearizable against the map model; for one-at-a-time schedules replies equal the model applied in entry order; no reply is readable while its command is still held; exactly one reply per request.".to_string(),
            json!({"cases": c11_cases(tier).len()}),
            common,
        ),
        "C16" => (
            format!("1 and 2 connections, each driven into one of the holdable states {{idle before any command, idle after an acknowledged command, having sent each strict prefix of a SET request (every truncation point), command held before the store, command held after the store call, two pipelined requests with the first held, an 8 MiB reply being written to a client that does not read, waiting for a slot behind another connection (max_connections 1), a client that never pauses}}, with max_connections 8 and again with max_connections equal to the number of connections (the listener is then parked waiting for a slot, not accepting); then the shutdown signal fires; a client that connects after the signal is never served; then the remaining release / resume events run in every order ({} cases). Oracle: run() has not returned while a command is in flight and returns within 6 s once everything is released; a command in flight is neither answered nor torn before it is released and is answered completely afterwards; every client's byte stream parses as complete replies followed by end of stream; acknowledged commands are in the store afterwards; an incomplete request changes nothing.", c16_cases(tier).len()),
            json!({"cases": c16_cases(tier).len(), "states": c16_states(tier).iter().map(|s| format!("{:?}", s)).collect::<Vec<_>>()}),
            common,
        ),
        _ => (
            format!("hostile byte streams on one connection ({} streams: ALL strings of length <= {} over 12 symbols; every truncation and every single-byte substitution of SET / GET / DEL requests; unknown and lower-case commands; every arity 0..4; every non-bulk frame type in every argument position; non-UTF-8 keys; nesting depth up to 300 000; declared lengths up to 2^64-1; 70 000 NUL bytes; half of a 70 000-byte value) x endings {{close, half-close, leave open}} x position relative to a control connection's SET/GET. Oracle: the server thread is alive; the control connection and a fresh connection get the model's answers; the hostile connection sees exactly the replies of its well-formed prefix; the store differs from the model only by the well-formed SET/DEL prefix (computed by the independent decoder); run() still returns on shutdown.", c10_streams(tier).len(), tier.pick(4, 5)),
            json!({"streams": c10_streams(tier).len()}),
            common,
        ),
    }
}

#[allow(dead_code)]
fn _unused(_: LEvent) {}
