#!/usr/bin/env python3
"""Regenerate the table in DESIGN.md 0.1 from evidence/*.json (numbers) and the descriptions below."""
import json, re
DESC = {
 "C01": ("e1 seq (e1.rs)", "all words of depth 5 over {set a/b small + 9000 B, del, merge} x 6 threshold sets x 4 file sizes x 2 hash orders; reader cache / pool sweep; key / value shapes with warm and cold readers; structured histories over 3..100 keys; bulk histories (257 .. 70 000 keys); entry sizes around 2^12 .. 2^17; 70-100 MiB volumes; backward / frozen clock", "depth 7; 200 keys; 140 000 keys"),
 "C02": ("e1", "depth 5 over {set, del, reopen} x 4 file sizes; > 10 files; from id 8; with merges; shapes; structured and bulk histories (also one entry per file); one word with 2^20+2 keys; the reference implementation's tombstone literals as values; clocks; 2-3 trailing reopens each", "depth 7 / 9; 2^21+3 keys"),
 "C05": ("e1", "depth 5 over the 8-symbol alphabet incl. merge and reopen on the 'hot' grid, depth 4 on the rest; after-merge sweeps with a change of thresholds; shapes (cold / warm); structured, bulk, size, volume histories; clocks", "depth 6"),
 "C12": ("e1", "depth 4, two extra recoveries (with / without hint files) in every state; after-merge, shapes, structured, bulk (257 / 4 100 keys, also one entry per file), clock sweeps; one word with 2^20+2 keys", "depth 5; 2^21+3 keys"),
 "C13": ("e1", "depth 5 / 4, size / minimality (vs. a real fresh store) / idempotence at every merge, whenever every non-empty file is selected; after-merge, shapes, structured, bulk sweeps", "depth 6"),
 "C14": ("e1 + e2", "depth 4 (trace + directory monitor) x 5 file sizes; structured histories (100+ files); interval-sync / sync-always sweep; recoveries of every crash directory of depth <= 3 and of the double crashes", "depth 6 / 4"),
 "C19": ("e1", "depth 5 / 4, counters vs. decoded files in every state; after-merge, shapes, structured, bulk (257 / 4 100 keys, also one entry per file: merges over 4 100 files) sweeps", "depth 6; 66 000 keys"),
 "C03": ("e2 crash (e2.rs)", "every system-call prefix of every word of length <= 4 x 5 configurations + value / key shapes + every prefix of 7 long histories (ids 9/10, 99/100) + a 300-key merge + double crashes; recovered twice, written to, restarted", "length <= 5, 8 configurations"),
 "C09": ("e2", "words <= 3 under sync=always, every crash point x per-file loss vectors (write boundaries + byte-granular short tails), 5 configurations incl. the exact-fill file size; + FAULTED histories: EIO at every mutating call of words <= 3 (and of 100 words with two merges / a reopen before the last merge), the store keeps running, power lost after every later operation, 9 configurations", "words <= 4, byte-granular"),
 "C20": ("e2", "every mutating call x {EIO, ENOSPC, short writes} of every word of length 3 (last-op faults of shorter words), shapes, long histories; 6 configurations; + at the RESP server: DEL of 3 / 2 / 1 keys and SET with the store call for one key failing", "length 4"),
 "C04": ("e3 sched (e3.rs, sched.rs, e3b.rs)", "23 harnesses, <= 2 preemptions (3 for two-thread harnesses); + every read-path fault position of a get in every state of words <= 3; + every read-path call made SLOW (pool of one reader) while another thread gets", "<= 3 / 4 preemptions"),
 "C07": ("e4 resp (e4.rs)", "all strings of length <= 6 over 12 symbols; number grid with all truncations; sized messages; combination grid; number lines x terminators; every byte value at every position of 24 well-formed messages; deep / huge in forked children", "length <= 8 (470 M strings)"),
 "C08": ("e4", "frame sequences x every segmentation / Pending / EOF / transport-error script; 10 short-write transports; long traffic from specs", "longer arrays / sequences, 2^16 segmentations, 4 MiB values"),
 "C06": ("e5 net (e5.rs)", "request words of depth 3 x {whole, lock-step, byte-wise, every cut, pairs of cuts, cut-and-wait, after dead connections}; structured words; late readers", "depth 4; every DEL count to 1100"),
 "C10": ("e5 (e5b.rs)", "hostile streams x 3 endings x position; after a crowd of 12; queued behind a full server (closed / reset); the client that does not read (16 KiB .. 1 MiB unread, then garbage / half-close)", "strings <= 5; up to 4 MiB unread"),
 "C11": ("e5", "(programs, interleaving of gate events) at three granularities: enter / return; + before the writer lock; + every hook point; real shard contention; a command whose store call fails (slow, then failing write) against two reads at every pair of its points", "+ 3 clients x 2 commands; 2+1 commands at every hook point"),
 "C15": ("e5", "connection-event words (N = 1, 2 length 6; N = 3 length 4; in-flight plan length 5), model checked after every event; time passes (a minute with nothing open; two days with N silent connections open); connection cycles (every 200th word: 1 100)", "length 7-8; 70 000 cycles"),
 "C16": ("e5", "(connection states, release order) x {below, at} the connection limit, incl. every truncation point of a request, 15 kinds of state, a late client; ten minutes pass after the signal", "all prefix pairs"),
 "C17": ("e6 vtime (e6.rs)", "drop positions (worker asleep, every gate, every inner point, other threads' operations) x worker configurations incl. windows and failing drops, each also as a drop by unwinding; open/close cycles", "30 inner points, 8 user points, 20 cycles"),
 "C18": ("e6", "configurations x 5 ticks in virtual time: policies, window edges, triggers (crossed, equal, zero, re-crossed), intervals, jitter, sync strategies, failing merges and fsyncs, a client's set inside the writer lock at the tick", "horizon 10"),
}
rows = ["| id | engine (file) | what the quick tier enumerates on this tree | evaluations (quick) | quick wall | thorough adds |", "|---|---|---|---|---|---|"]
for pid in sorted(DESC):
    try:
        e = json.load(open(f"/verif/evidence/{pid}.json"))
        ev = e["coverage"]["evaluations"]; wall = e.get("wall_s")
        tier = e.get("tier")
    except Exception:
        ev, wall, tier = "?", "?", "?"
    eng, what, th = DESC[pid]
    evs = f"{ev:,}".replace(",", " ") if isinstance(ev, int) else str(ev)
    rows.append(f"| {pid} | {eng} | {what} | {evs} | {wall} s ({tier}) | {th} |")
p = "/verif/DESIGN.md"; s = open(p).read()
block = "<!-- TABLE01:BEGIN -->\n" + "\n".join(rows) + "\n\n(Numbers are those of the evidence files committed with this document; wall times on the 16-core sandbox, idle.)\n<!-- TABLE01:END -->"
s = re.sub(r"<!-- TABLE01:BEGIN -->.*?<!-- TABLE01:END -->", lambda m: block, s, flags=re.S)
open(p, "w").write(s)
print("\n".join(rows[:4]))
