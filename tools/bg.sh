#!/bin/bash
# tools/bg.sh <name> <tier> <Cxx>...   — run checks from a private copy of the binary, writing evidence/replays
# below /root/bgout/<name> (never into /verif). Meant for `vp run -- /verif/tools/bg.sh ...`.
name=$1; tier=$2; shift 2
out=/root/bgout/$name; mkdir -p $out/evidence $out/replays
cp /verif/known_findings.json $out/
cp /verif/target/vh/vh $out/vh
for p in "$@"; do VH_VERIF_DIR=$out $out/vh check $p --tier $tier 2>&1 | cut -c1-1500; done
