#!/bin/bash
# tools/stress.sh <name> <rounds> <Cxx>...  — repeat quick checks from a private copy of the binary and
# report every run that does not exit 0 (false-alarm hunt). Output below /root/bgout/<name>.
name=$1; rounds=$2; shift 2
out=/root/bgout/$name; mkdir -p $out/evidence $out/replays
cp /verif/known_findings.json $out/
( cd /verif/harness && git -C /repo diff --quiet && cargo build --profile vh --offline >/dev/null 2>&1 )
cp /verif/target/vh/vh $out/vh
bad=0
for r in $(seq 1 $rounds); do
  for p in "$@"; do
    VH_VERIF_DIR=$out VERIF_SEED=$r $out/vh check $p --tier quick > $out/last.log 2>&1
    rc=$?
    if [ $rc -ne 0 ]; then bad=$((bad+1)); echo "round $r $p exit $rc"; grep -E "MACHINERY|VIOLATION|class=" $out/last.log | cut -c1-600 | head -4; fi
  done
done
echo "stress done: rounds=$rounds checks=$* bad=$bad"
