#!/bin/bash
# tools/confirm_seed.sh <id>  — in the scratch worktree /tmp/wt-<id> (change applied, demo in tests/seed_demo.rs):
#   1. existing tests pass with the change   2. demo fails with the change   3. demo passes without it
id=$1; wt=/tmp/wt-$id; out=/tmp/seed-out/$id/confirm.log
cd $wt || exit 2
export CARGO_NET_OFFLINE=true
feat=""; grep -q "verif" tests/seed_demo.rs 2>/dev/null && feat="--features verif"
{
echo "== confirm $id at $(date -u +%FT%TZ)"
git -C $wt status --short
echo "-- 1. existing suite with the change"
mv tests/seed_demo.rs /tmp/seed-out/$id/.demo.tmp
cargo test --workspace --no-fail-fast --offline 2>&1 | grep -E "^test result" | head -1
mv /tmp/seed-out/$id/.demo.tmp tests/seed_demo.rs
echo "-- 2. demo with the change (expected: FAILED)"
timeout 600 cargo test --offline $feat --test seed_demo 2>&1 | grep -E "^test result|panicked|FAILED|error(\[|:)" | head -6
echo "-- 3. demo without the change (expected: ok)"
git apply -R /tmp/seed-out/$id/patch.diff && timeout 600 cargo test --offline $feat --test seed_demo 2>&1 | grep -E "^test result|panicked|FAILED|error(\[|:)" | head -6
git apply /tmp/seed-out/$id/patch.diff
rm -rf $wt/target
} > $out 2>&1
cat $out
