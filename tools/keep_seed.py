#!/usr/bin/env python3
"""tools/keep_seed.py <id> <property> <detected_by(comma)> <needs...>  — copy a confirmed seeded change into /verif/seeded/<id>/."""
import sys, os, shutil, json, glob
sid, prop, det = sys.argv[1], sys.argv[2], sys.argv[3]
needs = " ".join(sys.argv[4:])
src = f"/tmp/seed-out/{sid}"
dst = f"/verif/seeded/{sid}"
os.makedirs(dst, exist_ok=True)
shutil.copy(f"{src}/patch.diff", f"{dst}/patch.diff")
for f in glob.glob(f"{src}/seed_demo.*"):
    shutil.copy(f, dst)
if os.path.exists(f"{src}/notes.md"):
    shutil.copy(f"{src}/notes.md", f"{dst}/notes.md")
confirm = open(f"{src}/confirm.log").read() if os.path.exists(f"{src}/confirm.log") else ""
try_log = open(f"{src}/try.log").read() if os.path.exists(f"{src}/try.log") else ""
meta = {
    "id": sid,
    "breaks_property": prop,
    "origin": "independent sub-agent given only the property text and a scratch worktree of /repo (nothing from /verif)",
    "needs_to_manifest": needs,
    "confirmed_by_me": {
        "how": "tools/confirm_seed.sh in the scratch worktree: (1) the repository's 44 tests pass with the change, (2) the demonstration fails with the change, (3) it passes with the change reverted",
        "log": confirm,
    },
    "checks_run": {
        "how": "tools/try_seed.sh: git -C /repo apply patch.diff; ./check <Cxx> --tier quick; git -C /repo checkout -- .",
        "detected_by": det.split(","),
        "log": try_log,
    },
}
json.dump(meta, open(f"{dst}/meta.json", "w"), indent=1)
print("kept", dst)
