#!/usr/bin/env python3
"""Generate /verif/MANIFEST.json from the table below (kept next to the checks so the two stay in sync)."""
import json, subprocess

REPO_HOOK_COMMITS = ["44a8587", "e060c76"]

# id -> (engine, category, technique, text, note, design_ref)
CHECKS = {
 "C01": ("e1 seq", "model_checking", "bounded-exhaustive enumeration of operation words x configuration grid on the real store, map-model oracle after every step",
         "Every word of depth 5 (quick) / 7 (thorough) over {set a/b small+9000B, del a/b, merge} for every configuration of a 3 file-size x 5 threshold-set x 2 merge-order grid, plus reader-cache/pool sweeps and a wide key/value sweep (empty, binary, 300-byte keys; empty, CR/LF/NUL, 9 000- and 70 000-byte values; run with a warm reader cache and again with no reader cache and two pooled readers, because the oracle's own reads warm the cache), is executed on the real store; every get of every key and every return value is compared with a BTreeMap after every step. Exhaustive within these bounds, nothing sampled.",
         "Two colliding keys stand for all keys; bounds as stated; background worker neutralised (merges issued through the verif_merge hook); tmpfs.", "DESIGN.md §5 E1, §6 C01"),
 "C02": ("e1 seq", "model_checking", "bounded-exhaustive enumeration of set/del/reopen words x file sizes on the real store, map-model oracle + reopen-stability oracle",
         "Every word of depth 5/7 over {set, del, reopen} x max_file_size {0, 60, 2^31}, a many-files sweep (depth 7/9 at max_file_size 0: more than 10 data files, so numeric vs. lexicographic id order matters) and a wide key/value sweep; after every step all reads equal the map model (reopen is the identity), deletes of keys deleted before a restart report 'absent', and trailing reopen cycles change neither the index nor the directory except for one new empty file.",
         "Same alphabet limits as C01.", "DESIGN.md §5 E1, §6 C02"),
 "C05": ("e1 seq", "model_checking", "bounded-exhaustive enumeration of words with merge and reopen x threshold grid (all subsets a merge may select) on the real store, map-model oracle",
         "Every word of depth 5/6 over the 8-symbol alphabet including merge and reopen, for 5 threshold sets (ALL, DEAD, SIZE27, FRAG, NONE) x 3 file sizes x both merge copy orders; reads before merge = after merge = after every following reopen = map model. Further sweeps start from non-initial states: the store is filled and fully merged under ALL (data in hinted merge outputs), re-opened with each other threshold set, then every word of depth 4|5 is run (two merges with different selections). The evidence lists which subsets of files the merges selected (including subsets that exclude an older file holding an overwritten or deleted value).",
         "Same alphabet limits as C01.", "DESIGN.md §5 E1, §6 C05"),
 "C12": ("e1 seq", "model_checking", "differential recovery (with / without hint files) in every state reached by bounded-exhaustive words",
         "In every state reached by every word of depth 4/5 of the C05 space the directory is copied twice, hint files are deleted from one copy, both are opened by the real code: reads and index must agree with each other and with the map model. Evidence counts states that really had one and several non-empty hint files.",
         "Same alphabet limits as C01.", "DESIGN.md §5 E1, §6 C12"),
 "C13": ("e1 seq", "model_checking", "size / minimality / idempotence oracle at every merge transition of bounded-exhaustive words",
         "At every merge of every word of depth 5/6 of the C05 space: total data size does not grow; every selected file and its hint file is gone; under ALL thresholds the store is exactly as large as the live pairs need and holds each live key once; a second merge changes nothing.",
         "Same alphabet limits as C01.", "DESIGN.md §5 E1, §6 C13"),
 "C19": ("e1 seq", "model_checking", "state invariant (counters = ground truth decoded from the files) on every state reached by bounded-exhaustive words",
         "After every step of every word of depth 5/6 of the C05 space the per-file live/dead/dead-bytes counters are compared with ground truth computed by an independent decoder of the data files and the index; overflow checks are on, so an underflow panics.",
         "Same alphabet limits as C01; the independent decoder is validated against the index on every state.", "DESIGN.md §5 E1, §6 C19"),
 "C03": ("e2 crash", "fault_enumeration", "exhaustive crash-point enumeration: every prefix of the recorded mutating system calls of every bounded workload, recovered by the real code",
         "Every workload word of length 0..4 (quick) / 0..5 (thorough) over {set a/b small + 9000 B, del, merge, reopen} x 4|6 configurations is recorded on the real store; for every boundary between two mutating file-system calls the directory a killed process would leave is rebuilt, opened by the real recovery code in a forked child (twice, covering a crash right after recovery's own create) and every key is read: acked operations must all be there, the in-flight one applied or not, nothing else. Then life goes on: on a pristine copy of the crash directory the first recovered incarnation itself writes (set a, del b), the store is restarted once more, and the reads must be exactly those writes.",
         "Failure model of the property (a prefix of the system calls survives; page cache survives a kill). Materialiser validated on every execution against the live directory.", "DESIGN.md §5 E2, §6 C03"),
 "C09": ("e2 crash", "fault_enumeration", "exhaustive crash-point x per-file loss-vector enumeration under sync=always, recovered by the real code",
         "As C03 with sync=always and depth 3|4, and for every crash point every per-file loss vector (each file keeps any length between its last fsync and its current length: write boundaries in quick, byte-granular in thorough). Every operation acknowledged before the crash point must be readable after recovery.",
         "Failure model of the property: per file, a suffix after the last fsync may be lost; creations and removals are durable.", "DESIGN.md §5 E2, §6 C09"),
 "C14": ("e1 seq + e2 crash", "model_checking", "trace and directory invariants monitored on every execution of the bounded-exhaustive word space and on the recovery of every crash directory",
         "On every word of depth 4|6 (E1) and on the recovery of every crash directory of every workload of depth <=3|4 (E2): every store file is created with O_CREAT|O_EXCL|O_APPEND, written only by the incarnation that created it, never truncated/renamed/pwritten/mapped writable/reopened for writing; previously written bytes are a prefix of the file afterwards; every created data id is above every id the directory ever contained (also across crash + recovery); one hint file per newest data id; no data file exceeds max_file_size by more than its last entry.",
         "System calls are observed by in-executable libc interposition (open/open64, write, writev, pwrite, fsync, unlink, rename, truncate, ftruncate, mmap).", "DESIGN.md §6 C14"),
 "C20": ("e2 crash", "fault_enumeration", "exhaustive single-fault enumeration: every mutating call position x errno / short write of every bounded workload",
         "Every workload word of length 3|4 (every fault position) and every shorter word (fault in the last operation) x 4|6 configurations; one fault per run at each individual create / write / fsync / unlink (EIO; ENOSPC for writes and creates; short writes as a benign deviation that must change nothing). The failed operation must return Err, nothing may panic or abort, every other operation must succeed, and reads in the running process and after a restart must equal the map model with the failed operation applied or not.",
         "One transient fault per run; faulted runs execute in forked children so that a process abort is an observation.", "DESIGN.md §5 E2, §6 C20"),
 "C04": ("e3 sched", "model_checking", "stateless model checking of the implementation: preemption-bounded exhaustive DFS over schedules of real threads under a baton scheduler, brute-force linearizability oracle",
         "23 harnesses of 2-3 real threads with 1-2 Handle operations each on one real store (forced key collisions; entries below and above the 8 KiB write buffer; rollover inside a put; merges with and without rollover; one and two pooled readers; reader cache 0). Every schedule with <= 2 (quick) / <= 3 (thorough) preemptions — one more for the two-thread harnesses — is executed; scheduling points are every interposed system call on a store file and every hook point before an access to shared state. A second, sequential pass decides the last sentence of the property for reads that FAIL: in every state of every word of length <= 3|4 over {set, big set, overwrite, del, merge, reopen} x file sizes x reader cache {0,1,256} x pool depth {1,2} a get is repeated with each of its read-path calls (open for reading, mmap) failing once; afterwards the pool must hold every reader and every key must read as the model says. Each execution must finish without panic, error, deadlock or livelock, its call/return history must be linearizable against the map model, the final reads must agree with a valid linearization and every reader must be back in the pool.",
         "Sequentially consistent at point granularity; lock-free primitives (parking_lot, dashmap, crossbeam) trusted; conservative shadow-lock rule for merge vs. readers; 2-3 threads, <= 2 operations each.", "DESIGN.md §5 E3, §6 C04"),
 "C07": ("e4 resp", "model_checking", "bounded-exhaustive input enumeration against the real Frame::check / Frame::parse with an independent exact decoder as oracle; abort-prone inputs evaluated in forked children",
         "ALL byte strings of length <= 6 (quick) / <= 8 (thorough, 470 million strings) over 12 symbols (+ - : $ * 0 1 9 CR LF a 0xFF), a number grid (integer / bulk length / array length carriers, top level and nested after fillers of 0..40 bytes so the digits cross every buffer offset, three signs, 1..21 digits, values around i64::MIN/MAX, 10^19, 2^64), every truncation point of every grid message and request, nesting depths up to 10^6 and declared lengths up to 2^64-1 on 8 MiB and 2 MiB stacks in forked children. No panic / abort; accepted frames and lengths equal the independent decoder's; check and parse agree on the length both on the accepted bytes alone and on the same (longer) buffer, as the connection uses them; check length = parse length; no strict prefix accepted as the same frame.",
         "Exhaustive only up to the stated string length / grids; bytes outside the 12-symbol alphabet are represented by 'a' and 0xFF.", "DESIGN.md §5 E4, §6 C07"),
 "C08": ("e4 resp", "model_checking", "bounded-exhaustive frames x sequences x segmentations x Pending/EOF scripts through the real Connection over a scripted stream under a hand-written executor",
         "Frame sequences (all kinds, i64 extremes, bulk strings with CR/LF/NUL and 8192/8193 bytes, arrays up to length 3|4, sequences up to 3|4 frames) are encoded by the real write_frame (bytes compared with an independent encoder) and decoded by the real read_frame under every segmentation (all 2^(n-1) for n <= 14|17 bytes; whole, byte-wise, all single cuts, pairs near the ends otherwise), every placement of <= 2 Pending answers, and every strict prefix followed by silence (must stay incomplete) or EOF (must be an error unless at a frame boundary).",
         "Nested arrays cannot be written by write_frame (unimplemented!) and are outside 'any frame the connection can write'.", "DESIGN.md §5 E4, §6 C08"),
 "C06": ("e5 net", "model_checking", "bounded-exhaustive request words x delivery patterns (every single cut, every pair of cuts, byte-wise, pipelined, lock-step) against the real server on a harness-owned runtime; map-model oracle on the complete reply stream",
         "Request words up to depth 3|4 over 12 requests (SET/GET/DEL, multi-key DEL with repeats and misses, values with CR LF NUL and empty, a 2-byte UTF-8 key) plus words with a 9 000-byte value; each word's byte stream is delivered to a fresh real server whole, in lock-step, one byte per recv, with every single cut and (short words) every pair of cuts, with replies that exceed the socket buffers (values of 300 KB .. 8|16 MiB put in the store beforehand, pipelines of up to 40 large GETs) to a client that starts reading only once the server is blocked, and with every single cut where the client first WAITS for all replies of the requests completed before the cut and only then sends the rest; the interposed recv hands over exactly the scripted segments. The complete reply stream up to end-of-stream must equal the reference encoding of the map model's answers; the store read through the handle must equal the model.",
         "Current-thread runtime; tokio primitives trusted; real loopback TCP.", "DESIGN.md §5 E5, §6 C06"),
 "C10": ("e5 net", "model_checking", "bounded-exhaustive hostile byte streams x endings x position relative to control traffic against the real server; liveness of the server thread and correctness of control / fresh connections as oracle",
         "ALL byte strings of length <= 4|5 over 12 symbols, every truncation and single-byte substitution of SET/GET/DEL requests, unknown/lower-case commands, every near-miss spelling of SET/GET/DEL (prefixes, one byte prepended / appended / replaced, all case variants, Redis commands that start with them such as SETNX or DELETE) with argument lists the real commands accept, every arity 0..4, every non-bulk frame type in every argument position, non-UTF-8 keys, nesting up to 300 000, declared lengths up to 2^64-1, 70 000 NULs, half of a 70 000-byte value; each with endings close / half-close / leave open. The server thread must stay alive (a process abort kills the worker and is reported with the case in progress), the control connection and a fresh connection must get the model's answers, the hostile connection must see exactly the replies of its well-formed prefix, the store may differ from the model only by that prefix, and run() must still return on shutdown.",
         "The reference command interpreter mirrors the parser's documented leniency; in-process server (an abort is attributed through the progress file).", "DESIGN.md §5 E5, §6 C10"),
 "C11": ("e5 net", "model_checking", "exhaustive interleavings of gated store-entry / store-return events of concurrent clients on the real server; linearizability + exact per-call oracle",
         "2 clients x programs of 1-2 commands over 5 commands, 3 clients x 1 command (thorough: 3 clients x <= 2 commands), and a variant with rollover at every write and a merge after every store entry: every command is held by a KeyValueStorage wrapper before it enters the store and before it returns, and EVERY interleaving of those events is executed; in a further variant SET and DEL are held a third time INSIDE the store call, right before they queue for the writer lock (store hook), so that a look at the index and the update that follows it can be separated by whole operations of other clients. Each reply must encode what its own store call returned; store-level and client-level histories must be linearizable against the map model; one-at-a-time schedules must match the model in entry order exactly; no reply is readable while its command is held; one reply per request.",
         "Command granularity: what happens inside two overlapping store calls is C04's subject; tokio's multi-thread scheduler is not enumerated.", "DESIGN.md §5 E5, §6 C11"),
 "C15": ("e5 net", "model_checking", "explicit-state search over connection-event words on the real server with a reference model of the accept loop checked after every event",
         "max_connections N in {1, 2}; events: connect a client that sends GET / nothing / half a frame / malformed bytes / triggers a panic in its handler task / whose accept fails with ECONNABORTED (injected in the interposed accept4), close the i-th open client, or abort it with a reset (RST; a connection reset while waiting in the backlog is later accepted as a dead socket); ALL words with up to 3|4 connections and length <= 6|8. After every event the served set must equal the FIFO accept model (served ones answered, waiting ones silent at quiescence, number of commands that reached the store equal to the model's); after every word N fresh connections are served concurrently, one more is not, and it is served once one of them closes.",
         "Quiescence = server thread parked in epoll_wait with nothing ready and no store call in flight, plus a stability window; negative observations can only miss.", "DESIGN.md §5 E5, §6 C15"),
 "C16": ("e5 net", "model_checking", "exhaustive connection-state x shutdown-moment x release-order enumeration on the real server",
         "1 and 2 connections, each in one of: idle (0 or 1 commands done), every strict prefix of a request sent, command held before the store, command held after the store call, two pipelined requests with the first held, an 8 MiB reply stalled on a client that does not read, a client that never pauses (one command held, 16 requests on the wire, keeps 16 requests ahead of the replies it reads: the server must stop answering it within 2 000 requests); then the shutdown signal; then every order of the remaining release/resume events. run() must not return while a command is in flight and must return once everything is released; in-flight commands are answered completely and never torn; every client's stream parses as complete replies then end of stream; acknowledged commands are in the store; incomplete requests change nothing.",
         "A client that never resumes reading keeps run() waiting (the statement conditions termination on connections winding down).", "DESIGN.md §5 E5, §6 C16"),
 "C17": ("e6 vtime", "model_checking", "exhaustive enumeration of drop moments (worker asleep, every hook gate, every hook point inside a running background merge/sync) x worker configurations in virtual time, with a global system-call recorder",
         "Worker configuration {trigger met, not met, merge never} x {no sync task, interval sync} x drop placed before tick 1..3 while the worker sleeps an hour (virtual) before its next timer, while it is held at each hook gate, and while a background merge or sync is held at EVERY hook point inside it; the sleeping-worker drops are repeated with every file-system call issued by the dropping thread failing (EIO). Relative to the moment the drop returned: every operation on a retained handle fails with 'closed', the old instance issues no mutating system call, the worker thread is gone within 2 s real time, the directory re-opens at once and reads as the map model immediately, after the old operation completed and after a further re-open; 2|20 open/close cycles leave thread and descriptor counts unchanged.",
         "Gate positions are hook points (before each lock acquisition / loop iteration), not every instruction; 'promptly' = 2 s real time.", "DESIGN.md §5 E6, §6 C17"),
 "C18": ("e6 vtime", "model_checking", "exhaustive configuration grid of the background worker executed in virtual time (interposed clock_gettime / epoll_wait), worker held at every tick, reference trigger predicate",
         "Policy {never, always, window in, window out} x trigger crossing {none, dead bytes, fragmentation, both} placed at tick k in 1..3 x check interval {1 ms .. 1 h} x jitter {0, 0.3, 1} x sync {none, always, interval}, horizon 5|10 ticks (1 413 | ~1 900 configurations): at every tick the spacing lies in interval*(1 +- jitter), can_merge() equals a reference predicate on the counters, a merge starts at exactly the first tick where predicate and policy allow and at no other, never under 'never' / outside the window; a background fsync that fails (the 1st, 2nd or 3rd, EIO) is followed by further syncs and the sync task on its own keeps syncing; interval sync keeps consecutive fsyncs at most one interval apart and stops after the drop.",
         "Virtual time trusts clock_gettime/epoll_wait to be the worker's only time sources; jitter samples observed not enumerated; real-time scheduling latency not measured.", "DESIGN.md §5 E6, §6 C18"),
}

NOT_YET = {
 "C03": "check under construction (engine E2, crash-prefix enumeration); will be claimed once built",
 "C04": "check under construction (engine E3, preemption-bounded interleavings)",
 "C06": "check under construction (engine E5)",
 "C07": "check under construction (engine E4)",
 "C08": "check under construction (engine E4)",
 "C09": "check under construction (engine E2)",
 "C10": "check under construction (engine E5)",
 "C11": "check under construction (engine E5)",
 "C14": "check under construction (engines E1+E2)",
 "C15": "check under construction (engine E5)",
 "C16": "check under construction (engine E5)",
 "C17": "check under construction (engine E6)",
 "C18": "check under construction (engine E6)",
 "C20": "check under construction (engine E2)",
}

def main():
    checks = []
    for pid, (engine, cat, tech, text, note, ref) in sorted(CHECKS.items()):
        checks.append({
            "property_id": pid,
            "quick_cmd": f"./check {pid} --tier quick",
            "thorough_cmd": f"./check {pid} --tier thorough",
            "evidence_file": f"/verif/evidence/{pid}.json",
            "replay_cmd_template": f"./check {pid} --replay {{path}}",
            "engine": engine,
            "level_claimed": {"category": cat, "text": text, "design_ref": ref},
            "level_note": note,
            "technique": tech,
        })
    m = {
        "version": 1,
        "setup_cmd": "cd /verif/harness && CARGO_NET_OFFLINE=true cargo build --profile vh --offline",
        "hooks": {
            "guard": "cargo feature `verif` of the bitcask crate (off by default)",
            "enable": "the harness depends on bitcask by path (/repo) with features=[\"verif\"]; ./check runs cargo build first, so every check rebuilds from /repo's working tree",
            "baseline_off_cmd": "cd /repo && cargo test --workspace --no-fail-fast --offline",
            "source_commits": REPO_HOOK_COMMITS,
            "add_only": True,
        },
        "engines": [
            {"name": "e1 seq", "path": "harness/src/e1.rs", "serves_properties": ["C01","C02","C05","C12","C13","C14","C19"], "kind_free_text": "bounded-exhaustive operation words on the real store, oracles after every step"},
            {"name": "e2 crash", "path": "harness/src/e2.rs", "serves_properties": ["C03","C09","C14","C20"], "kind_free_text": "every system-call prefix / loss vector / single fault of recorded histories"},
            {"name": "e3 sched", "path": "harness/src/e3.rs", "serves_properties": ["C04"], "kind_free_text": "preemption-bounded exhaustive interleavings of real threads under a baton scheduler"},
            {"name": "e4 resp", "path": "harness/src/e4.rs", "serves_properties": ["C07","C08"], "kind_free_text": "bounded-exhaustive byte strings / frames / stream scripts against the real parser and connection"},
            {"name": "e5 net", "path": "harness/src/e5.rs", "serves_properties": ["C06","C10","C11","C15","C16"], "kind_free_text": "the real server on a harness-owned current-thread runtime as a deterministic event system"},
            {"name": "e6 vtime", "path": "harness/src/e6.rs", "serves_properties": ["C17","C18"], "kind_free_text": "the background worker in virtual time, gates at every hook point"},
        ],
        "checks": checks,
        "not_applicable": [{"property_id": k, "reason": v} for k, v in sorted(NOT_YET.items()) if k not in CHECKS],
        "notes": "All checks: exit 0 = held on everything explored (known findings printed as KNOWN-FINDING), 1 = VIOLATION line(s), 2 = machinery failure (never a verdict). VERIF_SEED only perturbs visiting order; the explored space is fixed. VERIF_JOBS limits worker processes.",
    }
    json.dump(m, open("/verif/MANIFEST.json", "w"), indent=1)
    print("wrote MANIFEST.json with", len(checks), "checks")

main()
