#!/bin/bash
# tools/try_seed.sh <patch.diff> <tier> <Cxx>...  — apply a seeded change to /repo, run the named checks, undo it.
patch=$1; tier=$2; shift 2
cd /repo && git diff --quiet || { echo "/repo is dirty"; exit 2; }
git -C /repo apply $patch || exit 2
for p in "$@"; do
  ( cd /verif && VH_VERIF_DIR=/root/bgout/seedtry ./check $p --tier $tier 2>&1 | cut -c1-420 | grep -E "VIOLATION|class=|MACHINERY|KNOWN|$tier:" | head -8 )
done
git -C /repo checkout -- . ; git -C /repo status --short
# leave a clean binary behind (the harness links the bitcask crate statically)
( cd /verif/harness && cargo build --profile vh --offline >/dev/null 2>&1 )
