#!/usr/bin/env python3
"""Regenerate the table of seeded changes in DESIGN.md from seeded/*/meta.json."""
import json, glob, re
def clean(t):
    out = []
    for ch in t:
        if ch == '\n': out.append('\\n')
        elif ch == '\r': out.append('\\r')
        elif ch == '\0': out.append('\\0')
        elif ord(ch) < 32 or ord(ch) == 127: out.append('\\x%02x' % ord(ch))
        elif ch == '|': out.append('/')
        else: out.append(ch)
    return ''.join(out)
rows = []
for f in sorted(glob.glob('/verif/seeded/*/meta.json')):
    m = json.load(open(f))
    det = m['checks_run']['detected_by']
    missed = m['checks_run'].get('missed_at_first', '')
    rows.append((m['id'], m['breaks_property'], clean(m['needs_to_manifest']), ", ".join(det) if det and det != [''] else "**none**", missed))
t = "| seed | breaks | needs, in order to manifest | reported by | note |\n|---|---|---|---|---|\n"
for r in rows:
    t += "| %s | %s | %s | %s | %s |\n" % r
t += "\n%d seeded changes; %d reported by at least one check.\n" % (len(rows), sum(1 for r in rows if r[3] != "**none**"))
p = '/verif/DESIGN.md'; s = open(p).read()
block = "<!-- SEEDTABLE:BEGIN -->\n" + t + "<!-- SEEDTABLE:END -->"
s = re.sub(r"<!-- SEEDTABLE:BEGIN -->.*?<!-- SEEDTABLE:END -->", lambda _m: block, s, flags=re.S)
open(p, 'w').write(s)
print(t)
