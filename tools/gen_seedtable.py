#!/usr/bin/env python3
"""Regenerate the table of seeded changes in DESIGN.md from seeded/*/meta.json."""
import json, glob, re
rows = []
for f in sorted(glob.glob('/verif/seeded/*/meta.json')):
    m = json.load(open(f))
    det = m['checks_run']['detected_by']
    missed = m['checks_run'].get('missed_at_first', '')
    rows.append((m['id'], m['breaks_property'], m['needs_to_manifest'], ", ".join(det) if det and det != [''] else "**none**", missed))
t = "| seed | breaks | needs, in order to manifest | reported by | note |\n|---|---|---|---|---|\n"
for r in rows:
    t += "| %s | %s | %s | %s | %s |\n" % r
t += "\n%d seeded changes; %d reported by at least one check.\n" % (len(rows), sum(1 for r in rows if r[3] != "**none**"))
p = '/verif/DESIGN.md'; s = open(p).read()
s = re.sub(r"<!-- SEEDTABLE:BEGIN -->.*?<!-- SEEDTABLE:END -->", "<!-- SEEDTABLE:BEGIN -->\n" + t + "<!-- SEEDTABLE:END -->", s, flags=re.S)
open(p, 'w').write(s)
print(t)
